/-
Model for C07 — a realm's persisted state changes only under that realm's
authority.

Mirrors, line by line, the DECISION LOGIC of (gnovm/pkg/gnolang):
  * realm.go      `PkgID` flag predicates (IsStdlibPkg / IsImmutablePkg / IsRealmPkg),
                  `Realm.DidUpdate` (nil-realm /p/ gate, "not real" exit, external-realm
                  invariant panic with the stdlib exemption, /p/ post-init gate, the `co` branch)
  * machine.go    `PushFrameCall` (cross-call, cur-call, borrow rules #1 #2 #3 — including the
                  quirk that #2 and #3 can BOTH fire, #3 last), `Machine.IsReadonly` /
                  `isReadonly`, `isExternalRealm`, `setRealm`
  * ownership.go  `ObjectID.IsZero`, `GetIsReal`, `TypedValue.IsReadonlyBy` (HeapItem branch incl.
                  the "unreal HIV is transparent" rule)
  * alloc.go      `checkConstructionTime`, `stampPkgID`;  types.go `getDeclaredPkgID`
  * uverse.go     `refusePersistRealmHIV` / `isOriginRealmHIV`
  * op_expressions.go `doOpConvert` case 1
  * preprocess.go the static "cannot directly mutate <ext>.<Name>" check

and, on top of these, a small abstract machine (`run`) that executes an EVENT
TREE — calls with nested bodies, func-literal evaluation (closure stamping),
allocation, the write gates, DidUpdate — threading `m.Realm` / `m.Package` the
way PushFrameCall / PopFrameAndReturn do.  The theorems of Props/C07.lean are
about `run` for ALL event trees.

A package is a `Nat`; `PkgID = Option Nat` (`none` = the zero PkgID).  A realm
(`*Realm`) is identified with its package (`Realm.ID` / `Realm.Path` are both
functions of the path; hash collisions of PkgIDFromPkgPath are outside the model).
Core Lean only.
-/
namespace GnoVerif.C07

/-- path class of a package (mempackage.go: IsRealmPath / IsEphemeralPath /
    IsPPackagePath / IsStdlib) -/
inductive Kind
  | realm    -- gno.land/r/…
  | eph      -- gno.land/e/…  (MsgRun)
  | pure     -- gno.land/p/…
  | stdlib
  deriving DecidableEq, Repr

abbrev PkgID := Option Nat

/-- the package universe -/
structure World where
  kind : Nat → Kind
  /-- `pv.GetRealm() != nil` for the package value of this path -/
  hasRealm : Nat → Bool

namespace World
variable (W : World)

/-- `PkgID.IsStdlibPkg` (flag bit 0x80) -/
def isStdlibPkg : PkgID → Bool
  | none => false
  | some p => W.kind p == .stdlib

/-- `PkgID.IsImmutablePkg` (flag bit 0x40: stdlib or /p/) -/
def isImmutablePkg : PkgID → Bool
  | none => false
  | some p => W.kind p == .pure || W.kind p == .stdlib

/-- `PkgID.IsRealmPkg`: non-zero and not immutable (so /r/ AND /e/) -/
def isRealmPkg (pid : PkgID) : Bool := pid.isSome && !W.isImmutablePkg pid

/-- `IsRealmPath(pkgPath)`: only /r/ -/
def isRealmPath (p : Nat) : Bool := W.kind p == .realm

/-- `pv.GetRealm()` of package `p` -/
def realmOf (p : Nat) : Option Nat := if W.hasRealm p then some p else none

/-- `m.Store.GetObject(ObjectIDFromPkgID(pid)).(*PackageValue).GetRealm()` -/
def realmOfPid : PkgID → Option Nat
  | none => none
  | some p => W.realmOf p

end World

/-- `ObjectID{PkgID, NewTime}` -/
structure OID where
  pkg : PkgID
  newTime : Nat
  deriving DecidableEq, Repr

/-- `ObjectID.IsZero` -/
def OID.isZero (o : OID) : Bool := o.pkg.isNone && o.newTime == 0
/-- `ObjectInfo.GetIsReal` = `ID.IsFinalized()` -/
def OID.isReal (o : OID) : Bool := o.newTime != 0

/-- canonical failure classes -/
inductive Err
  | static        -- preprocess: cannot directly mutate <ext>.<Name>
  | readonly      -- cannot directly modify readonly tainted object / append / copy / delete
  | alloc         -- cannot allocate <T> in realm <R>
  | persist       -- cannot persist realm value
  | conv          -- illegal conversion of readonly or externally stored value
  | immutable     -- cannot mutate <p>: package is immutable post-init
  | invariant     -- invariant violation: DidUpdate called on external-realm object …
  | notCrossing   -- cannot cross-call a non-crossing function
  | curCall       -- cannot cur-call to external realm function
  deriving DecidableEq, Repr

def Err.token : Err → String
  | .static => "panic:static"
  | .readonly => "panic:readonly"
  | .alloc => "panic:alloc"
  | .persist => "panic:persist"
  | .conv => "panic:conv"
  | .immutable => "panic:immutable"
  | .invariant => "panic:invariant"
  | .notCrossing => "panic:other"
  | .curCall => "panic:other"

/-! ## PushFrameCall -/

/-- what PushFrameCall reads from the callee `*FuncValue` -/
structure Fn where
  /-- `fv.PkgPath` (the declaring package; `pv := fv.GetPackage`) -/
  pkg : Nat
  /-- `fv.IsCrossing()` -/
  crossing : Bool
  /-- `some stamp` iff `fv.IsClosure`; `stamp = fv.GetObjectInfo().ID.PkgID`, the
      allocator's currentRealmID when the FuncLit was evaluated -/
  closure : Option PkgID
  deriving DecidableEq, Repr

/-- what PushFrameCall reads from `recv` -/
inductive Recv
  | undef                -- `!recv.IsDefined()`
  | noObj                -- defined but `GetFirstObject` is nil (primitive / nil receiver)
  | obj (oid : OID)      -- `recv.GetFirstObject(m.Store).GetObjectInfo().ID`
  deriving DecidableEq, Repr

/-- borrow rule #2 on the current realm `cur` -/
def rule2 (W : World) (cur : Option Nat) : Recv → Option Nat
  | .obj oid =>
    if !oid.isZero && !W.isStdlibPkg oid.pkg && (cur.isNone || oid.pkg != cur)
    then W.realmOfPid oid.pkg else cur
  | _ => cur

/-- borrow rule #3 on the current realm `cur` -/
def rule3 (W : World) (cur : Option Nat) : Option PkgID → Option Nat
  | some pid =>
    if pid.isSome && !W.isStdlibPkg pid && (cur.isNone || pid != cur)
    then W.realmOfPid pid else cur
  | none => cur

/-- `m.Realm` after `PushFrameCall(cx, fv, recv, _)`, or the panic. -/
def pushFrameCall (W : World) (cur : Option Nat) (fn : Fn) (withCross : Bool) (recv : Recv) :
    Except Err (Option Nat) :=
  if withCross then
    if !fn.crossing then .error .notCrossing
    else .ok (W.realmOf fn.pkg)
  else if fn.crossing then
    -- `m.Realm != pv.Realm`
    if cur != W.realmOf fn.pkg then .error .curCall else .ok cur
  else if W.isRealmPath fn.pkg then
    -- rule #1: `m.Realm == nil || pv.PkgPath != m.Realm.Path`
    if cur != some fn.pkg then .ok (W.realmOf fn.pkg) else .ok cur
  else
    -- rule #2, then (no `return` in between) rule #3
    .ok (rule3 W (rule2 W cur recv) fn.closure)

/-! ## the write gates -/

/-- the shape of a `TypedValue` as `IsReadonlyBy` sees it -/
inductive TV
  | prim                                -- no object
  | ptrFree                             -- PointerValue, Base == nil
  | ptrHIV (hiv : OID) (inner : TV)     -- PointerValue, Base is a *HeapItemValue holding `inner`
  | ptrBase (base : OID)                -- PointerValue, other Base
  | obj (oid : OID)                     -- Array/Struct/Func/Map/BoundMethod/Package/Block: own id; Slice: base id
  | refPkg (path : Nat)                 -- RefValue{PkgPath}
  deriving Repr

/-- the final test of IsReadonlyBy -/
def roGate (rid : Nat) (own : PkgID) (o : OID) : Bool :=
  if o.isZero then false else (o.pkg != some rid && o.pkg != own)

/-- `TypedValue.IsReadonlyBy(rid, ownPkgID)` -/
def isReadonlyBy (rid : Nat) (own : PkgID) : TV → Bool
  | .prim => false
  | .ptrFree => false
  | .ptrHIV hiv inner =>
    if isReadonlyBy rid own inner then true
    else if !hiv.isReal then false
    else roGate rid own hiv
  | .ptrBase b => roGate rid own b
  | .obj o => roGate rid own o
  | .refPkg _ => false   -- Go panics; Machine.isReadonly never passes it down

/-- machine registers the gates read -/
structure St where
  realm : Option Nat     -- m.Realm (none = nil)
  pkg : Nat              -- m.Package
  stageRun : Bool        -- m.Stage == StageRun
  deriving Repr

/-- `Machine.IsReadonly` -/
def isReadonly (W : World) (s : St) (tv : TV) : Bool :=
  let own : PkgID := if W.isStdlibPkg (some s.pkg) then some s.pkg else none
  match s.realm with
  | none => false
  | some r =>
    match tv with
    | .refPkg p => p != s.pkg
    | _ => isReadonlyBy r own tv

/-- the `Base` of a NameExpr pointer as `isExternalRealm` sees it -/
inductive Base
  | nonObj
  | hiv (oid : OID)
  | obj (oid : OID)
  deriving Repr

/-- `Machine.isExternalRealm` -/
def isExternalRealm (W : World) (s : St) : Base → Bool
  | .nonObj => false
  | .hiv _ => false
  | .obj oid =>
    match s.realm with
    | none => false
    | some r =>
      if oid.isZero then false
      else if W.isStdlibPkg (some s.pkg) && oid.pkg == some s.pkg then false
      else oid.pkg != some r

/-- outcome of the guard part of `Realm.DidUpdate(m, po, _, _)`:
    `marked` = it went on to `rlm.MarkDirty(po)` (so `po` will be saved). -/
def didUpdate (W : World) (s : St) (po : Option OID) : Except Err Bool :=
  match s.realm with
  | none =>
    match po with
    | some o =>
      if s.stageRun && o.isReal && W.isImmutablePkg o.pkg && !W.isStdlibPkg o.pkg
      then .error .immutable else .ok false
    | none => .ok false
  | some r =>
    match po with
    | none => .ok false
    | some o =>
      if !o.isReal then .ok false
      else if o.pkg != some r then
        if W.isStdlibPkg o.pkg then .ok false else .error .invariant
      else if s.stageRun && W.isImmutablePkg (some r) && !W.isStdlibPkg (some r)
      then .error .immutable
      else .ok true

/-- `Allocator.checkConstructionTime(t)` with `decl = getDeclaredPkgID(t)` and
    `cur = alloc.currentRealmID` (kept equal to `m.Realm.ID` by setRealm) -/
def checkConstruction (W : World) (cur : PkgID) (decl : PkgID) : Except Err Unit :=
  if !W.isRealmPkg decl then .ok ()
  else if decl != cur then .error .alloc
  else .ok ()

/-- `Allocator.stampPkgID(oi, t)` -/
def stampPkgID (W : World) (cur : PkgID) (decl : PkgID) : PkgID :=
  if W.isRealmPkg decl then decl else cur

/-- `getDeclaredPkgID(t)` on the type shapes that matter -/
inductive TypeShape
  | declared (p : Nat)          -- a *StructType with a PkgPath (or a named struct type)
  | named (p : Nat) (base : TypeShape)  -- *DeclaredType `type N <base>` declared in package p (any base kind)
  | ptrTo (t : TypeShape)       -- *PointerType: walks to Elt
  | sliceOf (t : TypeShape)     -- anything else: zero PkgID
  | arrayOf (t : TypeShape)
  | mapOf (t : TypeShape)
  | anon
  deriving Repr

def getDeclaredPkgID : TypeShape → PkgID
  | .declared p => some p
  | .named p _ => some p
  | .ptrTo t => getDeclaredPkgID t
  | _ => none

/-- `baseOf(t)`: strips the declared name -/
def TypeShape.baseOf : TypeShape → TypeShape
  | .named _ b => b
  | t => t

/-- the type expression contains the type declared in package `p` -/
def TypeShape.mentions : TypeShape → Nat → Bool
  | .declared q, p => q == p
  | .named q b, p => q == p || b.mentions p
  | .ptrTo t, p => t.mentions p
  | .sliceOf t, p => t.mentions p
  | .arrayOf t, p => t.mentions p
  | .mapOf t, p => t.mentions p
  | .anon, _ => false

/-- `refusePersistRealmHIV(hiv)` for a HeapItem holding a value of the concrete
    realm type; `origin = isOriginRealmHIV(hiv)` (prev field nil, no subpath) -/
def refusePersistRealm (realmTyped origin : Bool) : Except Err Unit :=
  if !realmTyped || origin then .ok () else .error .persist

/-- `doOpConvert` case 1: `xv.T` not immutable; `ownDeclared` = `xv.T` is a
    DeclaredType whose PkgPath is `m.Realm.Path` -/
def convGuard (W : World) (s : St) (xv : TV) (ownDeclared : Bool) : Except Err Unit :=
  if isReadonly W s xv && !ownDeclared then .error .conv else .ok ()

/-- `doOpConvert` case 2: conversion TO a declared type `tdt` of package `decl`
    (`immutable = tdt.IsImmutable()`, true for primitive-based declared types) -/
def convToGuard (W : World) (s : St) (decl : Nat) (immutable : Bool) : Except Err Unit :=
  if !immutable && s.realm.isSome && W.isRealmPath decl && s.realm != some decl then .error .conv
  else .ok ()

/-! ## event trees and the abstract machine -/

/-- a PkgID that may depend on the run: fixed, read from a closure slot, or
    "the allocator's currentRealmID now" -/
inductive PidRef
  | fixed (p : PkgID)
  | slot (k : Nat)
  | current
  deriving Repr

/-- an ObjectID that may depend on the run -/
inductive OidRef
  | fixed (o : OID)
  /-- allocated just now for a value of declared-type owner `decl`:
      `stampPkgID(decl)`, NewTime 0 -/
  | fresh (decl : PkgID)
  deriving Repr

inductive RecvRef
  | undef
  | noObj
  | obj (o : OidRef)
  deriving Repr

inductive TVRef
  | prim
  | ptrFree
  | ptrHIV (hiv : OidRef) (inner : TVRef)
  | ptrBase (b : OidRef)
  | obj (o : OidRef)
  | refPkg (p : Nat)
  deriving Repr

/-- One event, continuation style (`next` = the rest of the enclosing body). -/
inductive Ev
  | done
  /-- evaluate a call: PushFrameCall, run `body` in the callee, PopFrameAndReturn -/
  | call (pkg : Nat) (crossing : Bool) (closure : Option PidRef) (withCross : Bool)
         (recv : RecvRef) (body : Ev) (next : Ev)
  /-- doOpFuncLit: a closure object is allocated, stamped with currentRealmID -/
  | lit (slot : Nat) (next : Ev)
  /-- composite literal / new / make of a type with this declared owner -/
  | alloc (decl : PkgID) (next : Ev)
  /-- a write gate through `m.IsReadonly(tv)` -/
  | ro (tv : TVRef) (next : Ev)
  /-- a NameExpr write gate through `m.isExternalRealm(base)` -/
  | roName (hiv : Bool) (base : OidRef) (next : Ev)
  /-- doOpConvert case 1 -/
  | conv (tv : TVRef) (ownDeclared : Bool) (next : Ev)
  /-- doOpConvert case 2: conversion to a declared type of package `decl` -/
  | convTo (decl : Nat) (immutable : Bool) (next : Ev)
  /-- the value of object `po` was overwritten; `DidUpdate(po, nil, nil)` follows.
      `tag` names the object for the driver's report. -/
  | upd (po : OidRef) (tag : Nat) (next : Ev)
  /-- `DidUpdate(po, nil, co)`: `po` now references `co` -/
  | attach (po : OidRef) (co : OidRef) (next : Ev)
  /-- finalize: an unreal object referenced by a new-real one becomes real -/
  | adopt (co : OidRef) (next : Ev)
  /-- finalize/attach hook: a realm-typed heap item would be saved -/
  | persistRealm (origin : Bool) (next : Ev)
  /-- the preprocessor rejects the whole program -/
  | static (next : Ev)
  deriving Repr

/-- one call frame, as needed to state who was running -/
structure Frame where
  fn : Fn
  recv : Recv
  /-- `m.Realm` in the callee's body -/
  realm : Option Nat
  deriving Repr

/-- a successful dirty-mark of a real object (= it will be persisted with its
    new content), with the machine state it happened in -/
structure WriteRec where
  realm : Option Nat
  pkg : Nat
  po : OID
  tag : Nat
  frames : List Frame
  deriving Repr

structure Ctx where
  st : St
  env : List (Nat × PkgID)      -- closure slots
  frames : List Frame           -- innermost first
  writes : List WriteRec        -- newest first
  /-- DidUpdate's `co` branch ran `MarkDirty(co)` on a real object of another realm -/
  metas : List (Option Nat × OID)
  /-- unreal objects that were marked new-real: (machine realm, resulting owner) -/
  news : List (Option Nat × PkgID)
  /-- an origin-shaped realm value passed refusePersistRealmHIV -/
  rv : Bool
  deriving Repr

def lookupSlot (env : List (Nat × PkgID)) (k : Nat) : PkgID :=
  match env.find? (fun e => e.1 == k) with
  | some e => e.2
  | none => none

def Ctx.curPid (c : Ctx) : PkgID := c.st.realm   -- alloc.currentRealmID (setRealm keeps them equal)

def resolvePid (c : Ctx) : PidRef → PkgID
  | .fixed p => p
  | .slot k => lookupSlot c.env k
  | .current => c.curPid

def resolveOid (W : World) (c : Ctx) : OidRef → OID
  | .fixed o => o
  | .fresh decl => ⟨stampPkgID W c.curPid decl, 0⟩

def resolveRecv (W : World) (c : Ctx) : RecvRef → Recv
  | .undef => .undef
  | .noObj => .noObj
  | .obj o => .obj (resolveOid W c o)

def resolveTV (W : World) (c : Ctx) : TVRef → TV
  | .prim => .prim
  | .ptrFree => .ptrFree
  | .ptrHIV h i => .ptrHIV (resolveOid W c h) (resolveTV W c i)
  | .ptrBase b => .ptrBase (resolveOid W c b)
  | .obj o => .obj (resolveOid W c o)
  | .refPkg p => .refPkg p

/-- the `co` branch of DidUpdate (after the guard succeeded with `marked`) -/
def attachEffect (W : World) (c : Ctx) (co : OID) : Ctx :=
  if W.isImmutablePkg co.pkg && co.pkg != c.st.realm then c   -- "Skip — immutable package objects"
  else if co.isReal then
    -- co.IncRefCount(); rlm.MarkDirty(co)
    { c with metas := (c.st.realm, co) :: c.metas }
  else
    -- co.SetOwner(po); rlm.MarkNewReal(co): saved under its stamp, or under rlm if unstamped
    { c with news := (c.st.realm, (if co.pkg.isSome then co.pkg else c.st.realm)) :: c.news }

/-- the pointer base a NameExpr write resolves to -/
def nameBase (hiv : Bool) (o : OID) : Base := if hiv then .hiv o else .obj o

/-- The abstract machine.  `Except` = the tx aborts with that panic. -/
def run (W : World) : Ev → Ctx → Except Err Ctx
  | .done, c => .ok c
  | .static _, _ => .error .static
  | .call pkg crossing closure withCross recv body next, c =>
    let fn : Fn := { pkg := pkg, crossing := crossing, closure := closure.map (resolvePid c) }
    let rv := resolveRecv W c recv
    match pushFrameCall W c.st.realm fn withCross rv with
    | .error e => .error e
    | .ok r =>
      let inner : Ctx := { c with st := { c.st with realm := r, pkg := pkg },
                                  frames := { fn := fn, recv := rv, realm := r } :: c.frames }
      match run W body inner with
      | .error e => .error e
      | .ok c' =>
        -- PopFrameAndReturn: m.Package = fr.LastPackage; m.setRealm(fr.LastRealm)
        run W next { c' with st := c.st, frames := c.frames }
  | .lit k next, c => run W next { c with env := (k, c.curPid) :: c.env }
  | .alloc decl next, c =>
    match checkConstruction W c.curPid decl with
    | .error e => .error e
    | .ok _ => run W next c
  | .ro tv next, c =>
    if isReadonly W c.st (resolveTV W c tv) then .error .readonly else run W next c
  | .roName hiv base next, c =>
    if isExternalRealm W c.st (nameBase hiv (resolveOid W c base)) then .error .readonly else run W next c
  | .conv tv own next, c =>
    match convGuard W c.st (resolveTV W c tv) own with
    | .error e => .error e
    | .ok _ => run W next c
  | .convTo decl imm next, c =>
    match convToGuard W c.st decl imm with
    | .error e => .error e
    | .ok _ => run W next c
  | .upd po tag next, c =>
    let o := resolveOid W c po
    match didUpdate W c.st (some o) with
    | .error e => .error e
    | .ok marked =>
      let c1 := if marked then
        { c with writes := { realm := c.st.realm, pkg := c.st.pkg, po := o, tag := tag, frames := c.frames } :: c.writes }
        else c
      run W next c1
  | .attach po co next, c =>
    let o := resolveOid W c po
    match didUpdate W c.st (some o) with
    | .error e => .error e
    | .ok marked =>
      let c1 := if marked then
        attachEffect W { c with writes := { realm := c.st.realm, pkg := c.st.pkg, po := o, tag := 0, frames := c.frames } :: c.writes }
          (resolveOid W c co)
        else c
      run W next c1
  | .adopt co next, c =>
    run W next { c with news := (c.st.realm,
      (if (resolveOid W c co).pkg.isSome then (resolveOid W c co).pkg else c.st.realm)) :: c.news }
  | .persistRealm origin next, c =>
    match refusePersistRealm true origin with
    | .error e => .error e
    | .ok _ => run W next { c with rv := true }

end GnoVerif.C07
