/-
Model.C42Spec — the vocabulary of the C42 theorems (core-only): the laws an AEAD
may be assumed to satisfy (hypotheses, never axioms), the frames a sender
produces, what "no forgery on this wire" means, and a reader that keeps reading
after errors (as a caller of `Read` may).
-/
import GnoVerif.Model.C42

namespace GnoVerif.C42

/-! ### AEAD laws (for one key) -/

/-- `open k n (seal k n m) = some m` -/
def AEAD.Correct (A : AEAD) (k : Bytes) : Prop :=
  ∀ n m, A.doOpen k n (A.doSeal k n m) = some m

/-- sealing adds exactly the 16-byte tag -/
def AEAD.Overhead (A : AEAD) (k : Bytes) : Prop :=
  ∀ n m, (A.doSeal k n m).length = m.length + aeadSizeOverhead

/-- a message sealed under one connection nonce does not open under another -/
def AEAD.NonceBinding (A : AEAD) (k : Bytes) : Prop :=
  ∀ c c' m, c < 2 ^ 64 → c' < 2 ^ 64 → c ≠ c' →
    A.doOpen k (nonceOf c') (A.doSeal k (nonceOf c) m) = none

/-! ### what a sender puts on the wire -/

/-- one frame of the sender, given by the chunk it carries -/
abbrev Fr := Bytes

/-- chunks are non-empty and at most `dataMaxSize` long -/
def Fr.WF (f : Fr) : Prop := f ≠ [] ∧ f.length ≤ dataMaxSize

/-- the sealed frame with connection counter `c` -/
def sealedAt (A : AEAD) (k : Bytes) (c : Nat) (f : Fr) : Bytes :=
  A.doSeal k (nonceOf c) (mkFrame f)

/-- frames sealed under consecutive counters from `c` on, concatenated -/
def sealAll (A : AEAD) (k : Bytes) : Nat → List Fr → Bytes
  | _, [] => []
  | c, f :: fs => sealedAt A k c f ++ sealAll A k (c + 1) fs

/-- the sealed frames as a list -/
def sealList (A : AEAD) (k : Bytes) : Nat → List Fr → List Bytes
  | _, [] => []
  | c, f :: fs => sealedAt A k c f :: sealList A k (c + 1) fs

/-- the frames of one `Write(data)` -/
def framesOfWrite (data : Bytes) : List Fr := chunksOf data

/-- the frames of a sequence of `Write` calls -/
def framesOfWrites (ws : List Bytes) : List Fr := ws.flatMap framesOfWrite

/-- the bytes carried by a list of frames -/
def payload (fs : List Fr) : Bytes := fs.flatten

/-! ### an adversarial wire -/

/-- the 1044-byte windows a reader takes off `wire`, in order (a shorter tail is not a window) -/
def windows (wire : Bytes) : List Bytes :=
  if wire.length < sealedFrameSize then []
  else wire.take sealedFrameSize :: windows (wire.drop sealedFrameSize)
termination_by wire.length
decreasing_by
  simp only [List.length_drop]
  have : 0 < sealedFrameSize := by decide
  omega

/-- **No forgery on this wire**: whatever 1044-byte window of `wire` opens under the key
and ANY connection nonce is one of the frames the sender sealed, under that frame's own
counter.  (This is ciphertext integrity + nonce binding, stated for the one transcript
at hand; it is a hypothesis about the adversary, not a law of the cipher.) -/
def NoForgery (A : AEAD) (k : Bytes) (c0 : Nat) (sent : List Fr) (wire : Bytes) : Prop :=
  ∀ s ∈ windows wire, ∀ j f, j < 2 ^ 64 → A.doOpen k (nonceOf j) s = some f →
    ∃ p, ∃ h : p < sent.length, j = c0 + p ∧ s = sealedAt A k (c0 + p) sent[p]

/-- a sequence of `Read` calls that goes on after errors (a caller may); a nonce panic
ends it.  Returns the final state, the bytes left in flight, and per call the returned
slice and error. -/
def readAll (A : AEAD) : SC → Bytes → List Nat → SC × Bytes × List (Bytes × Option ReadErr)
  | sc, conn, [] => (sc, conn, [])
  | sc, conn, size :: rest =>
    let r := read A sc conn size
    if r.err = some .panicNonce then (r.sc, r.conn, [(r.data, r.err)])
    else
      let (sc', conn', tr) := readAll A r.sc r.conn rest
      (sc', conn', (r.data, r.err) :: tr)

/-- everything the calls returned, concatenated -/
def delivered (tr : List (Bytes × Option ReadErr)) : Bytes := (tr.map (·.1)).flatten

end GnoVerif.C42
