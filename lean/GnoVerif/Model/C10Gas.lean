/-
Model of tm2/pkg/store/types/gas.go: the three gas meters as state machines.

Go `int64` gas values are modelled as `Int` with every overflow check of the
source made explicit (`overflow.Add` / `overflow.Subp` report failure exactly
when the mathematical result leaves the int64 range — that equivalence is
property C19).  A Go panic is modelled as a returned `GasPanic`; because the
meters are mutated through pointers, every operation returns the NEW meter
state even when it panics (`ConsumeGas` stores the sum before it checks the
limit: "consume gas even if out of gas").

Core-only (no Mathlib): linked into the drivers of C02 and C10.
-/
namespace GnoVerif.C10

def maxI64 : Int := 9223372036854775807
def minI64 : Int := -9223372036854775808

/-- the mathematical value fits a Go int64 -/
def inI64 (x : Int) : Bool := decide (minI64 ≤ x) && decide (x ≤ maxI64)

/-- two's-complement wrap of an unchecked Go int64 `+`/`-` -/
def wrap64 (x : Int) : Int := (x - minI64) % 18446744073709551616 + minI64

/-- the panic values the meters can raise -/
inductive GasPanic
  | negative      -- panic("gas must not be negative")
  | overflow      -- panic(GasOverflowError{..})
  | oog           -- panic(OutOfGasError{..})
  | subOverflow   -- overflow.Subp: panic("subtraction overflow")
  deriving DecidableEq, Repr, Inhabited

/-! ## basicGasMeter -/

structure Basic where
  limit : Int
  consumed : Int
  deriving DecidableEq, Repr, Inhabited

namespace Basic

/-- `NewGasMeter(limit)` -/
def new (limit : Int) : Except GasPanic Basic :=
  if limit < 0 then .error .negative else .ok { limit := limit, consumed := 0 }

def gasConsumed (g : Basic) : Int := g.consumed
def isPastLimit (g : Basic) : Bool := decide (g.consumed > g.limit)
def isOutOfGas (g : Basic) : Bool := decide (g.consumed ≥ g.limit)

/-- `GasConsumedToLimit` -/
def consumedToLimit (g : Basic) : Int := if g.isPastLimit then g.limit else g.consumed

/-- `Remaining() = overflow.Subp(Limit(), GasConsumedToLimit())` -/
def remaining (g : Basic) : Except GasPanic Int :=
  if inI64 (g.limit - g.consumedToLimit) then .ok (g.limit - g.consumedToLimit) else .error .subOverflow

/-- `ConsumeGas`: negative check, overflow check (state untouched), then the sum
is stored BEFORE the limit is checked. -/
def consume (g : Basic) (amount : Int) : Basic × Option GasPanic :=
  if amount < 0 then (g, some .negative)
  else if !(inI64 (g.consumed + amount)) then (g, some .overflow)
  else ({ g with consumed := g.consumed + amount },
        if g.consumed + amount > g.limit then some .oog else none)

/-- `RefundGas`: negative check; the refund is capped at `consumed`. -/
def refund (g : Basic) (amount : Int) : Basic × Option GasPanic :=
  if amount < 0 then (g, some .negative)
  else ({ g with consumed := g.consumed - (if amount > g.consumed then g.consumed else amount) }, none)

end Basic

/-! ## all meters: basic, infinite, passthrough (a head `Basic` over any base meter) -/

inductive Meter
  | basic (b : Basic)
  | infinite (consumed : Int)
  | pass (base : Meter) (head : Basic)
  deriving Repr, Inhabited

namespace Meter

def gasConsumed : Meter → Int
  | .basic b => b.consumed
  | .infinite c => c
  | .pass _ h => h.consumed

def consumedToLimit : Meter → Int
  | .basic b => b.consumedToLimit
  | .infinite c => c
  | .pass _ h => h.consumedToLimit

def limit : Meter → Int
  | .basic b => b.limit
  | .infinite _ => 0
  | .pass _ h => h.limit

def remaining : Meter → Except GasPanic Int
  | .basic b => b.remaining
  | .infinite _ => .ok maxI64
  | .pass _ h => h.remaining

def isPastLimit : Meter → Bool
  | .basic b => b.isPastLimit
  | .infinite _ => false
  | .pass _ h => h.isPastLimit

def isOutOfGas : Meter → Bool
  | .basic b => b.isOutOfGas
  | .infinite _ => false
  | .pass _ h => h.isOutOfGas

/-- `ConsumeGas`.  The infinite meter has NO negative-amount check: a negative
amount lowers `consumed` (only an int64 wrap is rejected).  The passthrough
meter charges its base first and its head only if the base did not panic. -/
def consume : Meter → Int → Meter × Option GasPanic
  | .basic b, a => ((.basic (b.consume a).1), (b.consume a).2)
  | .infinite c, a =>
    if inI64 (c + a) then (.infinite (c + a), none) else (.infinite c, some .overflow)
  | .pass base h, a =>
    match (base.consume a).2 with
    | some e => (.pass (base.consume a).1 h, some e)
    | none => (.pass (base.consume a).1 (h.consume a).1, (h.consume a).2)

/-- `RefundGas`.  Infinite: negative check, unchecked `-=`, clamp at 0. -/
def refund : Meter → Int → Meter × Option GasPanic
  | .basic b, a => ((.basic (b.refund a).1), (b.refund a).2)
  | .infinite c, a =>
    if a < 0 then (.infinite c, some .negative)
    else (.infinite (if wrap64 (c - a) < 0 then 0 else wrap64 (c - a)), none)
  | .pass base h, a =>
    match (base.refund a).2 with
    | some e => (.pass (base.refund a).1 h, some e)
    | none => (.pass (base.refund a).1 (h.refund a).1, (h.refund a).2)

/-- the meter at the bottom of a chain of passthrough meters -/
def bottom : Meter → Meter
  | .pass base _ => base.bottom
  | m => m

/-- the base of a passthrough meter (the meter itself otherwise) -/
def baseOf : Meter → Meter
  | .pass base _ => base
  | m => m

end Meter

/-! ## a tiny op language over one meter (driver `m …` lines, and the
"after any op sequence" theorems) -/

inductive MOp
  | consume (n : Int)
  | refund (n : Int)
  deriving Repr

def Basic.step (g : Basic) : MOp → Basic
  | .consume n => (g.consume n).1
  | .refund n => (g.refund n).1

def Basic.run (g : Basic) (ops : List MOp) : Basic := ops.foldl Basic.step g

end GnoVerif.C10
