/-
Model for C21: the token-advance layer of gnovm/pkg/parser/parser.go
(`next0`, `consumeComment`, `consumeCommentGroup`, `next`) and the way
`ParseFile2` / `ParseExprFrom2` (interface.go) install the per-token callback.

THIS IS ALL THE LEAN SIDE OF C21 CARRIES.  There is no model of the 3 000-line
recursive-descent grammar; "the rest of the parser" is a parameter (`Prog`
below).  What the fork's patch (gno.patch) changes semantically is exactly one
statement inside `next0`'s scan loop,

    for {
        p.pos, p.tok, p.lit = p.scanner.Scan()
        if p.callback != nil { p.callback(p.tok, p.nestLev) }      // <- Gno
        if p.tok == token.COMMENT { … if p.mode&ParseComments == 0 { continue } } else { p.top = false }
        break
    }

and the model is the smallest piece of the parser that contains this loop and
everything that can run while it runs.

Read line by line from the fork (and, for `stdCfg`, from go1.25.9's go/parser,
whose only difference in this layer is `lineFor`, see below):

* the scanner is the token stream `s` (go/scanner's output on the source: kind,
  line, and for comments whether the text is a block comment and how many '\n' it
  contains); `Scan` past the end keeps returning EOF (go/scanner does);
* `p.pos` is the stream index of the current token (`none` = `token.NoPos`,
  before the first `Scan`; `p.file.Line(NoPos) = 0`), `p.tok` its kind — kept
  as a separate field because the rest of the parser may overwrite it
  (`parseParamDecl` does `p.tok = token.IDENT`; facts-parserfork lists every
  writer);
* `p.lit` is only read by `consumeComment` (`p.lit[1] == '*'`, count of '\n')
  and is taken from the stream at `p.pos`;
* comments are identified by their stream index; `p.comments`, `p.leadComment`,
  `p.lineComment` are lists of such indices;
* NOT modelled: `p.goVersion` (the `//go:build` branch of `next0` — it writes
  no field read in this layer), tracing (`p.trace`, prints only).

`lineAt` is the line function used by the comment logic: the fork (Go 1.24)
calls `p.file.Line(pos)`, which honours `//line` directives (`forkCfg`);
go1.25.9 calls `p.lineFor(pos)`, the physical line (`stdCfg`).  The two
configurations are equal when no directive changes a line
(`Props.lineFor_drift_agree`) and differ otherwise
(`Props.lineFor_drift_counterexample`).  Other theorems: `callback_transparent`,
`parseFile2_eq_parseFile`, `callback_once_per_scan`, `comments_filed`,
`callback_count_partial` / `callback_misses_init_tokens` / `callback_count_counterexample`.

Quirks kept as they are:
* `ParseFile2` sets `p.callback` AFTER `p.init`, and `p.init` ends with
  `p.next()`: every token scanned by that first `next` (all leading comments
  and the first non-comment token) is never reported (`parse2`).
* in `next`, `comment` set by the same-line branch survives into the lead-comment
  test when no successor group follows; `endline` is reset to -1 (an `Int` here).
* the model is total where Go would panic on states the real parser never
  builds (`p.tok == COMMENT` written by hand over a token whose text is shorter
  than 2 bytes): such a token counts as a line comment.

Core only (no Mathlib): this file is linked into `gvdrive_C21`.
-/
set_option linter.unusedVariables false

namespace GnoVerif.C21

/-- go/token kinds that this layer looks at (`token.EOF`, `token.COMMENT`, `token.SEMICOLON`). -/
def tEOF : Nat := 1
def tCOMMENT : Nat := 2
def tSEMICOLON : Nat := 57

structure Tok where
  kind : Nat
  /-- `token.File.Line(pos)`: the line after `//line` directives -/
  line : Nat
  /-- `token.File.PositionFor(pos, false).Line`: the physical line -/
  raw : Nat
  /-- comment text starts with `/*` -/
  block : Bool
  /-- number of '\n' in the comment text -/
  nl : Nat
deriving Repr, DecidableEq, Inhabited

/-- `Scan` number `i` (0-based).  Past the end go/scanner keeps returning EOF at the file's end. -/
def tokAt (s : Array Tok) (i : Nat) : Tok :=
  if h : i < s.size then s[i]
  else { (s.back?.getD default) with kind := tEOF, block := false, nl := 0 }

theorem tokAt_comment_lt {s : Array Tok} {i : Nat} (h : (tokAt s i).kind = tCOMMENT) : i < s.size := by
  unfold tokAt at h
  split at h
  · assumption
  · simp [tEOF, tCOMMENT] at h

structure Cfg where
  s : Array Tok
  /-- line of the token at a stream index, as the comment logic sees it -/
  lineAt : Nat → Nat
  /-- `p.mode & ParseComments != 0` -/
  parseComments : Bool

/-- the fork (go/parser of Go 1.24): `p.file.Line(pos)` -/
def forkCfg (s : Array Tok) (pc : Bool) : Cfg := ⟨s, fun i => (tokAt s i).line, pc⟩
/-- go/parser of go1.25.9: `p.lineFor(pos)` -/
def stdCfg (s : Array Tok) (pc : Bool) : Cfg := ⟨s, fun i => (tokAt s i).raw, pc⟩

/-- the fields of `parser` that this layer reads or writes -/
structure PState where
  /-- number of `Scan` calls made so far (the scanner's position) -/
  idx : Nat
  pos : Option Nat
  tok : Nat
  top : Bool
  comments : List (List Nat)
  leadComment : Option (List Nat)
  lineComment : Option (List Nat)
deriving Repr, DecidableEq

/-- the zero `parser` after `p.scanner.Init` and `p.top = true` -/
def PState.init : PState := ⟨0, none, 0, true, [], none, none⟩

def posLine (c : Cfg) (p : Option Nat) : Nat :=
  match p with
  | none => 0
  | some i => c.lineAt i

/-- the per-token callback: `none` = `p.callback == nil` -/
abbrev Callback (κ : Type) := Option (Nat → Nat → κ → κ)

def fire {κ : Type} (cb : Callback κ) (tok nest : Nat) (k : κ) : κ :=
  match cb with
  | some f => f tok nest k
  | none => k

/-- what bounds every loop of this layer: a comment can only come from inside the stream -/
def meas (c : Cfg) (st : PState) : Nat :=
  if st.tok = tCOMMENT then c.s.size - st.idx + 1 else 0

/-- `func (p *parser) next0()` -/
def next0 {κ : Type} (c : Cfg) (cb : Callback κ) (nest : Nat) (st : PState) (k : κ) : PState × κ :=
  let t := tokAt c.s st.idx
  let st1 : PState := { st with idx := st.idx + 1, pos := some st.idx, tok := t.kind }
  let k1 := fire cb t.kind nest k
  if h : t.kind = tCOMMENT then
    if c.parseComments then (st1, k1)
    else next0 c cb nest st1 k1
  else ({ st1 with top := false }, k1)
termination_by c.s.size - st.idx
decreasing_by
  have := tokAt_comment_lt h
  omega

theorem next0_idx_lt {κ : Type} (c : Cfg) (cb : Callback κ) (nest : Nat) (st : PState) (k : κ) :
    st.idx < (next0 c cb nest st k).1.idx := by
  fun_induction next0 c cb nest st k
  · exact Nat.lt_succ_self _
  · rename_i ih
    exact Nat.lt_trans (Nat.lt_succ_self _) ih
  · exact Nat.lt_succ_self _

theorem next0_comment_le {κ : Type} (c : Cfg) (cb : Callback κ) (nest : Nat) (st : PState) (k : κ)
    (hc : (next0 c cb nest st k).1.tok = tCOMMENT) : (next0 c cb nest st k).1.idx ≤ c.s.size := by
  fun_induction next0 c cb nest st k
  · rename_i h _
    exact tokAt_comment_lt h
  · rename_i ih
    exact ih hc
  · rename_i h
    exact absurd hc h

theorem next0_meas {κ : Type} (c : Cfg) (cb : Callback κ) (nest : Nat) (st : PState) (k : κ)
    (h : st.tok = tCOMMENT) : meas c (next0 c cb nest st k).1 < meas c st := by
  have h1 := next0_idx_lt c cb nest st k
  unfold meas
  rw [if_pos h]
  split
  · rename_i hc
    have h2 := next0_comment_le c cb nest st k hc
    omega
  · omega

/-- `func (p *parser) consumeComment() (comment *ast.Comment, endline int)`:
returns (stream index of the comment, line on which it ends). -/
def consumeComment {κ : Type} (c : Cfg) (cb : Callback κ) (nest : Nat) (st : PState) (k : κ) :
    (Nat × Nat) × PState × κ :=
  let t : Tok := match st.pos with
    | some i => tokAt c.s i
    | none => default
  let endline := posLine c st.pos + (if t.block then t.nl else 0)
  ((st.pos.getD 0, endline), next0 c cb nest st k)

/-- the `for` loop of `consumeCommentGroup` -/
def groupLoop {κ : Type} (c : Cfg) (cb : Callback κ) (nest n : Nat) (endline : Nat) (list : List Nat)
    (st : PState) (k : κ) : (List Nat × Nat) × PState × κ :=
  if h : st.tok = tCOMMENT ∧ posLine c st.pos ≤ endline + n then
    let r := consumeComment c cb nest st k
    groupLoop c cb nest n r.1.2 (list ++ [r.1.1]) r.2.1 r.2.2
  else ((list, endline), st, k)
termination_by meas c st
decreasing_by
  simp only [consumeComment]
  exact next0_meas c cb nest st k h.1

theorem groupLoop_meas_le {κ : Type} (c : Cfg) (cb : Callback κ) (nest n endline : Nat) (list : List Nat)
    (st : PState) (k : κ) : meas c (groupLoop c cb nest n endline list st k).2.1 ≤ meas c st := by
  fun_induction groupLoop c cb nest n endline list st k with
  | case1 endline list st k h r ih =>
    have h1 := next0_meas c cb nest st k h.1
    have h2 : r.2.1 = (next0 c cb nest st k).1 := rfl
    rw [h2] at ih
    exact Nat.le_trans ih (Nat.le_of_lt h1)
  | case2 endline list st k h => exact Nat.le_refl _

/-- `func (p *parser) consumeCommentGroup(n int) (comments *ast.CommentGroup, endline int)` -/
def consumeCommentGroup {κ : Type} (c : Cfg) (cb : Callback κ) (nest n : Nat) (st : PState) (k : κ) :
    (List Nat × Nat) × PState × κ :=
  let r := groupLoop c cb nest n (posLine c st.pos) [] st k
  (r.1, { r.2.1 with comments := r.2.1.comments ++ [r.1.1] }, r.2.2)

theorem consumeCommentGroup_meas {κ : Type} (c : Cfg) (cb : Callback κ) (nest n : Nat) (st : PState) (k : κ)
    (h : st.tok = tCOMMENT) : meas c (consumeCommentGroup c cb nest n st k).2.1 < meas c st := by
  unfold consumeCommentGroup
  rw [groupLoop]
  have hc : st.tok = tCOMMENT ∧ posLine c st.pos ≤ posLine c st.pos + n := ⟨h, Nat.le_add_right _ _⟩
  rw [dif_pos hc]
  have h1 := next0_meas c cb nest st k h
  have h2 := groupLoop_meas_le c cb nest n (consumeComment c cb nest st k).1.2
    ([] ++ [(consumeComment c cb nest st k).1.1]) (consumeComment c cb nest st k).2.1 (consumeComment c cb nest st k).2.2
  simp only [consumeComment] at h2 ⊢
  simp only [meas] at h1 h2 ⊢
  exact Nat.lt_of_le_of_lt h2 h1

/-- "consume successor comments, if any": `for p.tok == token.COMMENT { comment, endline = p.consumeCommentGroup(1) }` -/
def succLoop {κ : Type} (c : Cfg) (cb : Callback κ) (nest : Nat) (comment : Option (List Nat)) (endline : Int)
    (st : PState) (k : κ) : (Option (List Nat) × Int) × PState × κ :=
  if h : st.tok = tCOMMENT then
    let r := consumeCommentGroup c cb nest 1 st k
    succLoop c cb nest (some r.1.1) (r.1.2 : Nat) r.2.1 r.2.2
  else ((comment, endline), st, k)
termination_by meas c st
decreasing_by exact consumeCommentGroup_meas c cb nest 1 st k h

/-- `next`, after `comment, endline = p.consumeCommentGroup(0)`:
`if p.file.Line(p.pos) != endline || p.tok == token.SEMICOLON || p.tok == token.EOF { p.lineComment = comment }` -/
def lineK {κ : Type} (c : Cfg) (r : (List Nat × Nat) × PState × κ) : Option (List Nat) × PState × κ :=
  if posLine c r.2.1.pos ≠ r.1.2 ∨ r.2.1.tok = tSEMICOLON ∨ r.2.1.tok = tEOF then
    -- the next token is on a different line, thus the last comment group is a line comment
    (some r.1.1, { r.2.1 with lineComment := some r.1.1 }, r.2.2)
  else (some r.1.1, r.2.1, r.2.2)

/-- `next`, the branch "the comment is on the same line as the previous token; it cannot be a
lead comment but may be a line comment"; returns the local `comment` as well -/
def lineBranch {κ : Type} (c : Cfg) (cb : Callback κ) (nest : Nat) (prev : Option Nat) (st : PState) (k : κ) :
    Option (List Nat) × PState × κ :=
  if posLine c st.pos = posLine c prev then lineK c (consumeCommentGroup c cb nest 0 st k)
  else (none, st, k)

/-- `next`, after the successor loop: `if endline+1 == p.file.Line(p.pos) { p.leadComment = comment }` -/
def leadK {κ : Type} (c : Cfg) (r : (Option (List Nat) × Int) × PState × κ) : PState × κ :=
  if r.1.2 + 1 = (posLine c r.2.1.pos : Int) then
    -- the next token follows on the line immediately after the comment group: a lead comment
    ({ r.2.1 with leadComment := r.1.1 }, r.2.2)
  else (r.2.1, r.2.2)

/-- `next`: "consume successor comments, if any" with `endline = -1`, then the lead-comment test -/
def succK {κ : Type} (c : Cfg) (cb : Callback κ) (nest : Nat) (a : Option (List Nat) × PState × κ) : PState × κ :=
  leadK c (succLoop c cb nest a.1 (-1) a.2.1 a.2.2)

/-- `next`, the body of `if p.tok == token.COMMENT { … }` (`prev` is `p.pos` before `next0`) -/
def commentBranch {κ : Type} (c : Cfg) (cb : Callback κ) (nest : Nat) (prev : Option Nat) (st : PState) (k : κ) :
    PState × κ :=
  succK c cb nest (lineBranch c cb nest prev st k)

/-- `next`, after `prev := p.pos; p.next0()` -/
def nextK {κ : Type} (c : Cfg) (cb : Callback κ) (nest : Nat) (prev : Option Nat) (r0 : PState × κ) : PState × κ :=
  if r0.1.tok = tCOMMENT then commentBranch c cb nest prev r0.1 r0.2 else r0

/-- `func (p *parser) next()` -/
def next {κ : Type} (c : Cfg) (cb : Callback κ) (nest : Nat) (st : PState) (k : κ) : PState × κ :=
  nextK c cb nest st.pos (next0 c cb nest { st with leadComment := none, lineComment := none } k)

/-! ## the rest of the parser, as a parameter -/

/-- Everything else the parser does, seen from this layer: it reads the state, may overwrite
`p.tok`, calls `p.next()` at some nesting level, and eventually stops (normally or by a
bailout — both are `ret`).  Any terminating recursive-descent parser over this token layer is
such a tree; the theorems quantify over all of them. -/
inductive Prog (ρ : Type) where
  | ret : ρ → Prog ρ
  | peek : (PState → Prog ρ) → Prog ρ
  | setTok : Nat → Prog ρ → Prog ρ
  | next : Nat → Prog ρ → Prog ρ

structure Outcome (ρ κ : Type) where
  result : ρ
  /-- the parser state after every `next()` call, in order -/
  trace : List PState
  final : PState
  cbState : κ

def run {ρ κ : Type} (c : Cfg) (cb : Callback κ) : Prog ρ → PState → κ → Outcome ρ κ
  | .ret r, st, k => ⟨r, [], st, k⟩
  | .peek f, st, k => run c cb (f st) st k
  | .setTok t p, st, k => run c cb p { st with tok := t } k
  | .next nest p, st, k =>
    let r := next c cb nest st k
    let o := run c cb p r.1 r.2
    { o with trace := r.1 :: o.trace }

/-- `ParseFile` / `ParseExprFrom`: `p.init` (whose last statement is `p.next()`), then the grammar;
`p.callback` stays nil. -/
def parse1 {ρ : Type} (c : Cfg) (prog : Prog ρ) : Outcome ρ Unit :=
  let r := next c (none : Callback Unit) 0 PState.init ()
  run c none prog r.1 r.2

/-- `ParseFile2` / `ParseExprFrom2`: `p.init(file, text, mode); p.callback = callback; f = p.parseFile()`
— the callback is installed after the first `next()`. -/
def parse2 {ρ κ : Type} (c : Cfg) (cb : Nat → Nat → κ → κ) (prog : Prog ρ) (k : κ) : Outcome ρ κ :=
  let r := next c (none : Callback κ) 0 PState.init k
  run c (some cb) prog r.1 r.2

/-- a complete parse, as far as this layer can tell: `next()` until the current token is EOF
(every non-comment token is consumed by exactly one `next()`), all at nesting level 0.
Fuel = number of tokens (each `next()` scans at least one). -/
def drain : Nat → Prog Unit
  | 0 => .ret ()
  | fuel + 1 => .peek fun st => if st.tok = tEOF then .ret () else .next 0 (drain fuel)

/-- the logging callback used by the driver and by the counting theorems -/
def logCb : Nat → Nat → List (Nat × Nat) → List (Nat × Nat) := fun tok nest l => l ++ [(tok, nest)]

end GnoVerif.C21
