/-
Model of tm2/pkg/bft/types/vote_set.go (VoteSet, blockVotes), written line by
line after the Go code.  Core Lean only.  Go slices are `List`s here (`votes[i]` = `at? votes i`).

What is abstract:
* a `BlockID` is `(key, tag)`: `key` stands for `BlockID.Key()` (the map key of
  `votesByBlock`), `tag` distinguishes BlockIDs that have the same `Key()` —
  `Key()` is `string(Hash) ++ amino(PartsHeader)` and is NOT injective (see
  `Props/C35.lean`, `conflict_reported_counterexample`, `maj23_block_counterexample`).  `BlockID.Equals` is structural equality.
* a signature is an identity `sig : Nat` (two votes carry equal signature bytes
  iff the ids are equal) plus `sigOk : Bool` = `vote.Verify(chainID, val.PubKey)`
  succeeds for the validator at `vote.ValidatorIndex`.
* an address is an id (`Nat`); validator `i` is `(addr_i, power_i)`.
* the bit arrays (`votesBitArray`, `blockVotes.bitArray`) are not separate
  fields: the code sets bit `i` exactly where it stores `votes[i]`, and the
  driver prints them from `votes` (compared with the real bit arrays on every
  event by the correspondence run).
* `int64` sums are `Nat`: `NewValidatorSet` guarantees `total ≤
  MaxTotalVotingPower = MaxInt64/8`, so `total*2/3+1` and every partial sum fit
  (`Props/C35.lean`, `quorum_fits_int64`).
-/
namespace GnoVerif.C35

structure BlockID where
  key : Nat
  tag : Nat
deriving DecidableEq, Repr

structure Vote where
  idx : Int          -- ValidatorIndex
  addr : Nat         -- ValidatorAddress
  height : Int
  round : Int
  type : Nat         -- SignedMsgType (1 prevote, 2 precommit)
  block : BlockID
  sig : Nat          -- identity of the signature bytes
  sigOk : Bool       -- vote.Verify(chainID, valSet[idx].PubKey) == nil
deriving DecidableEq, Repr

/-- `blockVotes` -/
structure BlockVotes where
  peerMaj23 : Bool
  votes : List (Option Vote)
  sum : Nat
deriving Repr

structure VoteSet where
  height : Int
  round : Int
  type : Nat
  vals : List (Nat × Nat)                -- (address, voting power) in index order
  votes : List (Option Vote)
  sum : Nat
  maj23 : Option BlockID
  vbb : List (Nat × BlockVotes)          -- votesByBlock: Key() ↦ blockVotes
  peerMaj23s : List (Nat × BlockID)      -- peer ↦ claimed block
deriving Repr

def prevoteType : Nat := 1
def precommitType : Nat := 2
/-- `MaxTotalVotingPower = MaxInt64 / 8` (validator_set.go); printed by both sides on `new`. -/
def maxTotalVotingPower : Nat := (2^63 - 1) / 8

-- ---------------------------------------------------------------- association lists (Go maps)

def alGet {β : Type} (k : Nat) : List (Nat × β) → Option β
  | [] => none
  | (k', b) :: r => if k' = k then some b else alGet k r

def alSet {β : Type} (k : Nat) (b : β) : List (Nat × β) → List (Nat × β)
  | [] => [(k, b)]
  | (k', b') :: r => if k' = k then (k, b) :: r else (k', b') :: alSet k b r

-- ---------------------------------------------------------------- small helpers

/-- `l[i]` for a slice of pointers: `none` = nil. -/
def at? (l : List (Option Vote)) (i : Nat) : Option Vote := (l[i]?).join

def newBlockVotes (peerMaj23 : Bool) (n : Nat) : BlockVotes :=
  { peerMaj23 := peerMaj23, votes := List.replicate n none, sum := 0 }

/-- `valSet.TotalVotingPower()` -/
def totalPower (vals : List (Nat × Nat)) : Nat := (vals.map (·.2)).sum

def VoteSet.total (s : VoteSet) : Nat := totalPower s.vals

/-- `TotalVotingPower()*2/3 + 1` -/
def VoteSet.quorum (s : VoteSet) : Nat := s.total * 2 / 3 + 1

/-- `NewVoteSet` (the height == 0 panic is the caller's concern: heights here are arbitrary). -/
def newVoteSet (height round : Int) (type : Nat) (vals : List (Nat × Nat)) : VoteSet :=
  { height, round, type, vals,
    votes := List.replicate vals.length none, sum := 0, maj23 := none, vbb := [], peerMaj23s := [] }

/-- `(vs *blockVotes) addVerifiedVote` -/
def BlockVotes.add (bv : BlockVotes) (v : Vote) (i : Nat) (power : Nat) : BlockVotes :=
  match at? bv.votes i with
  | none => { bv with votes := bv.votes.set i (some v), sum := bv.sum + power }
  | some _ => bv

/-- the loop `for i, vote := range votesByBlock.votes { if vote != nil { voteSet.votes[i] = vote } }` -/
def copyVotes (dst src : List (Option Vote)) : List (Option Vote) :=
  List.zipWith (fun d s => match s with | some x => some x | none => d) dst src

/-- `getVote(valIndex, blockKey)` -/
def getVote (s : VoteSet) (i : Nat) (k : Nat) : Option Vote :=
  match at? s.votes i with
  | some e => if e.block.key = k then some e else
      match alGet k s.vbb with
      | some bv => at? bv.votes i
      | none => none
  | none =>
      match alGet k s.vbb with
      | some bv => at? bv.votes i
      | none => none

-- ---------------------------------------------------------------- AddVote

inductive Err | nilVote | index | addr | step | nondet | sig | conflict
deriving DecidableEq, Repr

inductive Panic | dupInVerified | notAddedNoConflict | commitType | commitNoMaj
deriving DecidableEq, Repr

/-- result of `AddVote`: `(added, err)` or a panic -/
inductive Outcome
  | ret (added : Bool) (err : Option Err)
  | panic (p : Panic)
deriving DecidableEq, Repr

/-- result of `addVerifiedVote`: `(added, conflicting)` or its panic -/
structure AVV where
  s : VoteSet
  added : Bool
  conflicting : Option Vote
  panicked : Bool := false

/-- First half of `addVerifiedVote` ("Already exists in voteSet.votes?"), after the
duplicate panic has been excluded: returns the state and `conflicting`. -/
def placeVote (s : VoteSet) (v : Vote) (i : Nat) (power : Nat) : VoteSet × Option Vote :=
  match at? s.votes i with
  | some e =>
    -- Replace vote if blockKey matches voteSet.maj23.  Otherwise don't add it to voteSet.votes
    match s.maj23 with
    | some m => if m.key = v.block.key then ({ s with votes := s.votes.set i (some v) }, some e) else (s, some e)
    | none => (s, some e)
  | none =>
    -- Add to voteSet.votes and incr .sum
    ({ s with votes := s.votes.set i (some v), sum := s.sum + power }, none)

/-- Tail of `addVerifiedVote` from "Before adding to votesByBlock, see if we'll exceed quorum". -/
def trackVote (s1 : VoteSet) (bv : BlockVotes) (v : Vote) (i : Nat) (power : Nat)
    (conflicting : Option Vote) : AVV :=
  let origSum := bv.sum
  let quorum := s1.quorum
  -- Add vote to votesByBlock
  let bv' := bv.add v i power
  let s2 : VoteSet := { s1 with vbb := alSet v.block.key bv' s1.vbb }
  -- If we just crossed the quorum threshold and have 2/3 majority...
  if origSum < quorum ∧ quorum ≤ bv'.sum then
    -- Only consider the first quorum reached
    match s1.maj23 with
    | none =>
      -- And also copy votes over to voteSet.votes
      { s := { s2 with maj23 := some v.block, votes := copyVotes s2.votes bv'.votes },
        added := true, conflicting := conflicting }
    | some _ => { s := s2, added := true, conflicting := conflicting }
  else { s := s2, added := true, conflicting := conflicting }

/-- `addVerifiedVote(vote, blockKey, votingPower)`; `i = vote.ValidatorIndex` (in range). -/
def addVerifiedVote (s : VoteSet) (v : Vote) (i : Nat) (power : Nat) : AVV :=
  if (match at? s.votes i with | some e => decide (e.block = v.block) | none => false) then
    -- panic("addVerifiedVote does not expect duplicate votes")
    { s := s, added := false, conflicting := none, panicked := true }
  else
  let (s1, conflicting) := placeVote s v i power
  match alGet v.block.key s1.vbb with
  | some bv =>
    if conflicting.isSome && !bv.peerMaj23 then
      -- There's a conflict and no peer claims that this block is special.
      { s := s1, added := false, conflicting := conflicting }
    else trackVote s1 bv v i power conflicting
  | none =>
    if conflicting.isSome then
      -- We're not even tracking this blockKey, so just forget it.
      { s := s1, added := false, conflicting := conflicting }
    else
      -- Start tracking this blockKey
      trackVote s1 (newBlockVotes false s.vals.length) v i power conflicting

/-- `AddVote` / `addVote` with the check order of the code.  (`len(valAddr) == 0`
can never hold: `crypto.Address` is a `[20]byte` array, so that branch is dead.) -/
def addVote (s : VoteSet) (vote : Option Vote) : VoteSet × Outcome :=
  match vote with
  | none => (s, .ret false (some .nilVote))
  | some v =>
    -- Ensure that validator index was set
    if v.idx < 0 then (s, .ret false (some .index)) else
    -- Make sure the step matches.
    if v.height ≠ s.height ∨ v.round ≠ s.round ∨ v.type ≠ s.type then (s, .ret false (some .step)) else
    -- Ensure that signer is a validator.
    match s.vals[v.idx.toNat]? with
    | none => (s, .ret false (some .index))
    | some (lookupAddr, power) =>
      -- Ensure that the signer has the right address.
      if v.addr ≠ lookupAddr then (s, .ret false (some .addr)) else
      -- If we already know of this vote, return false.
      match getVote s v.idx.toNat v.block.key with
      | some existing =>
        if existing.sig = v.sig then (s, .ret false none)   -- duplicate
        else (s, .ret false (some .nondet))
      | none =>
        -- Check signature.
        if !v.sigOk then (s, .ret false (some .sig)) else
        let r := addVerifiedVote s v v.idx.toNat power
        if r.panicked then (s, .panic .dupInVerified) else
        match r.conflicting with
        | some _ => (r.s, .ret r.added (some .conflict))
        | none => if !r.added then (r.s, .panic .notAddedNoConflict) else (r.s, .ret true none)

-- ---------------------------------------------------------------- SetPeerMaj23

/-- `SetPeerMaj23(peerID, blockID)`; `true` = the "conflicting blockID from peer" error. -/
def setPeerMaj23 (s : VoteSet) (peer : Nat) (b : BlockID) : VoteSet × Bool :=
  -- Make sure peer hasn't already told us something.
  match alGet peer s.peerMaj23s with
  | some existing => if existing = b then (s, false) else (s, true)
  | none =>
    let s1 := { s with peerMaj23s := alSet peer b s.peerMaj23s }
    -- Create .votesByBlock entry if needed.
    match alGet b.key s1.vbb with
    | some bv =>
      if bv.peerMaj23 then (s1, false)
      else ({ s1 with vbb := alSet b.key { bv with peerMaj23 := true } s1.vbb }, false)
    | none => ({ s1 with vbb := alSet b.key (newBlockVotes true s.vals.length) s1.vbb }, false)

-- ---------------------------------------------------------------- queries

def hasTwoThirdsMajority (s : VoteSet) : Bool := s.maj23.isSome
def twoThirdsMajority (s : VoteSet) : Option BlockID := s.maj23
/-- `sum > TotalVotingPower()*2/3` -/
def hasTwoThirdsAny (s : VoteSet) : Bool := decide (s.sum > s.total * 2 / 3)
def hasAll (s : VoteSet) : Bool := decide (s.sum = s.total)
/-- `BitArrayByBlockID`: `none` = nil -/
def bitArrayByBlockID (s : VoteSet) (b : BlockID) : Option (List Bool) :=
  (alGet b.key s.vbb).map fun bv => bv.votes.map Option.isSome

/-- `MakeCommit`: the commit's BlockID and one entry per validator (`CommitSig` is a `Vote`). -/
def makeCommit (s : VoteSet) : Except Panic (BlockID × List (Option Vote)) :=
  if s.type ≠ precommitType then .error .commitType else
  match s.maj23 with
  | none => .error .commitNoMaj
  | some b => .ok (b, s.votes)

-- ---------------------------------------------------------------- histories

inductive Event
  | vote (v : Option Vote)
  | peerMaj (peer : Nat) (b : BlockID)
deriving Repr

def step (s : VoteSet) : Event → VoteSet
  | .vote v => (addVote s v).1
  | .peerMaj p b => (setPeerMaj23 s p b).1

def run (s : VoteSet) (evs : List Event) : VoteSet := evs.foldl step s

-- ---------------------------------------------------------------- specification vocabulary

/-- Σ power of the validators `i` with `l[i] ≠ nil` ("counted power of distinct validators"). -/
def sumPow : List (Nat × Nat) → List (Option Vote) → Nat
  | (_, p) :: vs, o :: os => (if o.isSome then p else 0) + sumPow vs os
  | _, _ => 0

/-- `votesByBlock[k].votes[i] = v`: validator `i`'s vote `v` is counted for block key `k`. -/
def Tracked (s : VoteSet) (k i : Nat) (v : Vote) : Prop :=
  ∃ bv, alGet k s.vbb = some bv ∧ at? bv.votes i = some v

/-- Power counted for block key `k` (0 if the key is not tracked). -/
def countedFor (s : VoteSet) (k : Nat) : Nat :=
  match alGet k s.vbb with
  | some bv => sumPow s.vals bv.votes
  | none => 0

/-- `v` passes every check of `addVote` before `addVerifiedVote` is called: index in range,
address of that validator, step, not already known (`getVote`), valid signature. -/
def Verified (s : VoteSet) (v : Vote) : Prop :=
  0 ≤ v.idx ∧ v.height = s.height ∧ v.round = s.round ∧ v.type = s.type ∧
  (∃ p, s.vals[v.idx.toNat]? = some (v.addr, p)) ∧
  getVote s v.idx.toNat v.block.key = none ∧ v.sigOk = true

/-- The checks of `addVote` other than "do we already know this vote": what makes a vote a
valid vote of validator `v.idx` for this height/round/type. -/
def PassesChecks (s : VoteSet) (v : Vote) : Prop :=
  0 ≤ v.idx ∧ v.height = s.height ∧ v.round = s.round ∧ v.type = s.type ∧
  (∃ p, s.vals[v.idx.toNat]? = some (v.addr, p)) ∧ v.sigOk = true

/-- All votes of validator `i` the vote set holds (canonical or counted under any key). -/
def knownVotes (s : VoteSet) (i : Nat) : List Vote :=
  (at? s.votes i).toList ++ s.vbb.filterMap (fun kb => at? kb.2.votes i)

/-- Power of the validators whose counted vote is for the BlockID `b` itself (not just for its key). -/
def countedForBlock (s : VoteSet) (b : BlockID) : Nat :=
  match alGet b.key s.vbb with
  | some bv => sumPow s.vals (bv.votes.map fun o => o.filter fun v => decide (v.block = b))
  | none => 0

/-- Some peer claimed (`SetPeerMaj23`) a block with key `k`. -/
def PeerClaimed (s : VoteSet) (k : Nat) : Prop := ∃ p b, alGet p s.peerMaj23s = some b ∧ b.key = k

/-- States reachable from a fresh vote set by any sequence of `AddVote` / `SetPeerMaj23`. -/
def Reachable (s : VoteSet) : Prop :=
  ∃ h r t vals evs, s = run (newVoteSet h r t vals) evs

/-- One `AddVote` call of a history: the state it was applied to, the vote, what it returned. -/
structure LogEntry where
  pre : VoteSet
  vote : Vote
  out : Outcome

/-- the `added` result of `AddVote` -/
def Outcome.added : Outcome → Bool
  | .ret a _ => a
  | .panic _ => false

/-- `AddVote` reported `added = true` (with or without the conflict error). -/
def LogEntry.added (e : LogEntry) : Prop := e.out.added = true

/-- The vote was not reported as added but replaced `votes[i]`: a conflicting vote
for the block that already has the +2/3 majority, no peer having claimed that block. -/
def LogEntry.lateStored (e : LogEntry) : Prop :=
  e.out = .ret false (some .conflict) ∧ ∃ m, e.pre.maj23 = some m ∧ m.key = e.vote.block.key

/-- The vote set kept the vote (in `votesByBlock` and/or in `votes`). -/
def LogEntry.stored (e : LogEntry) : Prop := e.added ∨ e.lateStored

/-- The log of all non-nil `AddVote` calls of a history. -/
def runLog (s : VoteSet) : List Event → List LogEntry
  | [] => []
  | .vote (some v) :: evs => ⟨s, v, (addVote s (some v)).2⟩ :: runLog (addVote s (some v)).1 evs
  | e :: evs => runLog (step s e) evs

end GnoVerif.C35
