/-!
# C44 — model of k-of-n multisig verification (tm2/pkg/crypto/multisig)

Mirrors, line by line, the code that exists in /repo:

* `bitarray/compact_bit_array.go` — `CompactBitArray.Size`, `GetIndex`, `SetIndex`,
  `NumTrueBitsBefore`, `NewCompactBitArray`;
* `multisignature.go` — `NewMultisig`, `getIndex`, `AddSignature`, `AddSignatureFromPubKey`;
* `threshold_pubkey.go` — `PubKeyMultisigThreshold.VerifyBytes`.

The bit array is the DECODED structure `(ExtraBitsStored : byte, Elems : []byte)` exactly as
amino yields it (or a nil pointer) — not an already well-formed boolean vector — so every malformed
shape (extra ≥ 8, empty `Elems` with extra ≠ 0 ⇒ negative `Size()`, too few / too many elements) is
an input of the model.

Go's slice indexing is modelled with checked indexing: every `xs[i]` of the Go code is an
`xs[i]?` here, and the `none` branch returns `Except.error Panic.index` (= a Go
"index out of range" run-time panic).  `Props/C44.lean` proves that this branch is unreachable in
`VerifyBytes` for ALL inputs.  A nil `crypto.PubKey` interface value (amino decodes an empty `Any`
into a nil element of `PubKeys`) is a key `none`; since /repo e5e21f6a46 `VerifyBytes` checks for it
and returns false instead of calling a method on it.

Signatures and single-key verification are abstract: a signature is a value of an arbitrary type
`σ`, key `i` is `Option (σ → Bool)` (`none` = nil interface; the message is fixed and baked into
the predicate).  The harness computes the real verification result of every (key i, signature j)
pair and passes the matrix on the op line, so the model contains no cryptography.

Core Lean only (links into the `lean_exe` driver).
-/
namespace GnoVerif.C44

/-- Go run-time panics that the modelled code could raise. -/
inductive Panic where
  /-- index / slice bounds out of range -/
  | index
  /-- `amino.MustUnmarshal` on undecodable bytes (only in the ante handler's gas consumer) -/
  | decode
deriving DecidableEq, Repr

/-- Result of a Go function that may panic. -/
abbrev R (α : Type) := Except Panic α

/-! ## bitarray.CompactBitArray -/

/-- `type CompactBitArray struct { ExtraBitsStored byte; Elems []byte }` -/
structure CBA where
  extra : UInt8
  elems : List UInt8
deriving DecidableEq, Repr

/-- `*CompactBitArray`; `none` is the nil pointer (amino leaves the field nil when it is absent). -/
abbrev BA := Option CBA

/-- `Size()` on a non-nil receiver:
    `ExtraBitsStored == 0 ? len(Elems)*8 : (len(Elems)-1)*8 + int(ExtraBitsStored)`.
    Negative when `Elems` is empty and `0 < ExtraBitsStored < 8`. -/
def CBA.size (b : CBA) : Int :=
  if b.extra = 0 then (b.elems.length : Int) * 8
  else ((b.elems.length : Int) - 1) * 8 + (b.extra.toNat : Int)

/-- `func (bA *CompactBitArray) Size() int` -/
def BA.size : BA → Int
  | none => 0
  | some b => b.size

/-- `uint8(1) << uint8(7-(i%8))` -/
def mask (i : Nat) : UInt8 := (1 : UInt8) <<< UInt8.ofNat (7 - i % 8)

/-- `e & mask > 0` -/
def testBit (e : UInt8) (i : Nat) : Bool := decide ((e &&& mask i) > 0)

/-- the guard of `GetIndex` / `SetIndex`: `i < 0 || i >= bA.Size() || i>>3 >= len(bA.Elems)` -/
def CBA.outOfRange (b : CBA) (i : Int) : Bool :=
  decide (i < 0) || decide (i ≥ b.size) || decide (i.toNat / 8 ≥ b.elems.length)

/-- `func (bA *CompactBitArray) GetIndex(i int) bool` with checked slice indexing. -/
def BA.getIndexE : BA → Int → R Bool
  | none, _ => .ok false
  | some b, i =>
    if b.outOfRange i then .ok false
    else match b.elems[i.toNat / 8]? with
      | some e => .ok (testBit e i.toNat)
      | none => .error .index

/-- Pure reading of `GetIndex` (used in specifications; `getIndexE_eq` shows it is what the checked
    version returns on every input). -/
def BA.getIndex : BA → Int → Bool
  | none, _ => false
  | some b, i => if b.outOfRange i then false else testBit (b.elems.getD (i.toNat / 8) 0) i.toNat

/-- `func (bA *CompactBitArray) SetIndex(i int, v bool) bool` (returns the updated array and the
    result). -/
def BA.setIndexE : BA → Int → Bool → R (BA × Bool)
  | none, _, _ => .ok (none, false)
  | some b, i, v =>
    if b.outOfRange i then .ok (some b, false)
    else match b.elems[i.toNat / 8]? with
      | some e =>
        let e' := if v then e ||| mask i.toNat else e &&& ~~~ (mask i.toNat)
        .ok (some { b with elems := b.elems.set (i.toNat / 8) e' }, true)
      | none => .error .index

/-- loop of `NumTrueBitsBefore`: `rem` iterations left, current index `i`, running count `acc`. -/
def BA.ntbLoopE (ba : BA) : (rem i acc : Nat) → R Nat
  | 0, _, acc => .ok acc
  | rem + 1, i, acc => do
    let b ← ba.getIndexE (i : Int)
    ba.ntbLoopE rem (i + 1) (if b then acc + 1 else acc)

/-- `func (bA *CompactBitArray) NumTrueBitsBefore(index int) int` — `for i := range index`
    runs `max index 0` times. -/
def BA.numTrueBitsBeforeE (ba : BA) (index : Int) : R Nat :=
  ba.ntbLoopE index.toNat 0 0

/-- pure reading of `NumTrueBitsBefore`. -/
def BA.numTrueBitsBefore (ba : BA) (index : Int) : Nat :=
  (List.range index.toNat).countP (fun (i : Nat) => ba.getIndex (i : Int))

/-- `func NewCompactBitArray(bits int) *CompactBitArray` -/
def newCompactBitArray (bits : Int) : BA :=
  if bits ≤ 0 then none
  else some { extra := UInt8.ofNat (bits.toNat % 8), elems := List.replicate ((bits.toNat + 7) / 8) 0 }

/-! ## multisig.Multisignature -/

/-- `type Multisignature struct { BitArray *CompactBitArray; Sigs [][]byte }` with abstract
    signatures. -/
structure MSig (σ : Type) where
  ba : BA
  sigs : List σ

/-- `func NewMultisig(n int) *Multisignature` -/
def newMultisig {σ : Type} (n : Int) : MSig σ := { ba := newCompactBitArray n, sigs := [] }

/-- `func getIndex(pk, keys) int`: first position whose key `Equals` pk, or −1. -/
def keyIndexFrom {κ : Type} [DecidableEq κ] (pk : κ) : List κ → Nat → Int
  | [], _ => -1
  | k :: ks, i => if pk = k then (i : Int) else keyIndexFrom pk ks (i + 1)

def keyIndex {κ : Type} [DecidableEq κ] (pk : κ) (keys : List κ) : Int := keyIndexFrom pk keys 0

/-- `func (mSig *Multisignature) AddSignature(sig []byte, index int)`.
    The two slice accesses (`Sigs[newSigIndex] = sig`, `Sigs[newSigIndex+1:]`) are checked. -/
def addSignatureE {σ : Type} (m : MSig σ) (sig : σ) (index : Int) : R (MSig σ) := do
  let newSigIndex ← m.ba.numTrueBitsBeforeE index
  if (← m.ba.getIndexE index) then
    -- Signature already exists, just replace the value there
    if newSigIndex < m.sigs.length then .ok { m with sigs := m.sigs.set newSigIndex sig }
    else .error .index
  else
    let (ba', _) ← m.ba.setIndexE index true
    if newSigIndex = m.sigs.length then .ok { ba := ba', sigs := m.sigs ++ [sig] }
    else if newSigIndex < m.sigs.length then .ok { ba := ba', sigs := m.sigs.insertIdx newSigIndex sig }
    else .error .index   -- `mSig.Sigs[newSigIndex+1:]` with newSigIndex+1 > len

/-- `AddSignatureFromPubKey`: `none` = the error return (key not in `keys`), state unchanged. -/
def addSignatureFromPubKeyE {σ κ : Type} [DecidableEq κ] (m : MSig σ) (sig : σ) (pk : κ) (keys : List κ) :
    R (Option (MSig σ)) :=
  let index := keyIndex pk keys
  if index = -1 then .ok none else (addSignatureE m sig index).map some

/-! ## multisig.PubKeyMultisigThreshold.VerifyBytes -/

/-- Go `int(pk.K)` for `K uint` on a 64-bit platform (two's-complement reinterpretation). -/
def kInt (k : UInt64) : Int :=
  if k.toNat < 2 ^ 63 then (k.toNat : Int) else (k.toNat : Int) - 2 ^ 64

/-- A constituent key: `none` = nil interface value, `some vf` = `vf sig` is
    `PubKeys[i].VerifyBytes(msg, sig)` for the message at hand. -/
abbrev Key (σ : Type) := Option (σ → Bool)

/-- The loop `for i := range size { if GetIndex(i) { … sigIndex++ } }`;
    `rem` iterations left, current `i`, current `sigIndex`. -/
def verifyLoopE {σ : Type} (keys : List (Key σ)) (ba : BA) (sigs : List σ) : (rem i sigIndex : Nat) → R Bool
  | 0, _, _ => .ok true
  | rem + 1, i, si => do
    let b ← ba.getIndexE (i : Int)
    if b then
      -- more positions marked than signatures supplied
      if si ≥ sigs.length then .ok false
      else match keys[i]?, sigs[si]? with
        | some (some vf), some s =>
          if !vf s then .ok false else verifyLoopE keys ba sigs rem (i + 1) (si + 1)
        -- a decoded key may hold a nil constituent key
        | some none, some _ => .ok false
        | _, _ => .error .index
    else verifyLoopE keys ba sigs rem (i + 1) si

/-- `func (pk PubKeyMultisigThreshold) VerifyBytes(msg, marshalledSig) bool`;
    `dec = none` is `amino.Unmarshal` failing. -/
def verifyBytesE {σ : Type} (k : UInt64) (keys : List (Key σ)) (dec : Option (MSig σ)) : R Bool :=
  match dec with
  | none => .ok false
  | some sig =>
    -- `pk.K == 0 || uint64(pk.K) > uint64(len(pk.PubKeys))`: a decoded key can carry a threshold
    -- of 0 or one above the number of keys (int(pk.K) is negative for K ≥ 2^63)
    if k.toNat = 0 ∨ k.toNat > keys.length then .ok false else
    let size := sig.ba.size
    -- ensure bit array is the correct size
    if (keys.length : Int) ≠ size then .ok false
    -- ensure size of signature list
    else if (sig.sigs.length : Int) < kInt k ∨ (sig.sigs.length : Int) > size then .ok false
    else do
      -- ensure at least k signatures are set
      let nt ← sig.ba.numTrueBitsBeforeE size
      if (nt : Int) < kInt k then .ok false
      else verifyLoopE keys sig.ba sig.sigs size.toNat 0 0

/-! ## auth.consumeMultisignatureVerificationGas (tm2/pkg/sdk/auth/ante.go)

The ante handler calls `DefaultSigVerificationGasConsumer` BEFORE `VerifyBytes`.  For a multisig key
it does `amino.MustUnmarshal(sig, &multisignature)` and then walks the bit array with UNCHECKED
`sig.Sigs[sigIndex]` and `pubkey.PubKeys[i]`.  `costs[i]` is the gas of key `i`'s type
(`none` = nil / unrecognised key: the error result of the recursive call is dropped, no gas). -/

def gasLoopE (costs : List (Option Nat)) (ba : BA) (nsigs : Nat) : (rem i sigIndex acc : Nat) → R Nat
  | 0, _, _, acc => .ok acc
  | rem + 1, i, si, acc => do
    let b ← ba.getIndexE (i : Int)
    if b then
      if si < nsigs then
        match costs[i]? with
        | some c => gasLoopE costs ba nsigs rem (i + 1) (si + 1) (acc + c.getD 0)
        | none => .error .index
      else .error .index
    else gasLoopE costs ba nsigs rem (i + 1) si acc

/-- `DefaultSigVerificationGasConsumer(meter, sig, PubKeyMultisigThreshold{…}, params)`: the gas
    consumed; `dec = none` is undecodable `sig`. -/
def multisigGasE {σ : Type} (costs : List (Option Nat)) (dec : Option (MSig σ)) : R Nat :=
  match dec with
  | none => .error .decode
  | some sig => gasLoopE costs sig.ba sig.sigs.length sig.ba.size.toNat 0 0 0

/-! ## specification vocabulary -/

/-- positions `< n` that `GetIndex` reads as marked, ascending. -/
def marked (ba : BA) (n : Nat) : List Nat :=
  (List.range n).filter (fun (i : Nat) => ba.getIndex (i : Int))

/-- key `i` exists, is not nil and accepts `s`. -/
def keyAccepts {σ : Type} (keys : List (Key σ)) (i : Nat) (s : σ) : Bool :=
  match keys[i]? with
  | some (some vf) => vf s
  | _ => false

/-- the `j`-th signature exists and verifies under the key of the `j`-th marked position, for all
    marked positions. -/
def AllMarkedValid {σ : Type} (keys : List (Key σ)) (m : MSig σ) (n : Nat) : Prop :=
  ∀ j (h : j < (marked m.ba n).length),
    ∃ s, m.sigs[j]? = some s ∧ keyAccepts keys ((marked m.ba n)[j]) s = true

/-- The acceptance condition of `VerifyBytes`, declaratively: the signature bytes decode, the key
    is a genuine k-of-n key (`1 ≤ K ≤ n`), the bit array claims exactly `n = len(PubKeys)`
    positions, `int(K) ≤ len(Sigs) ≤ n`, at least `int(K)` positions are marked and every marked
    position carries (in order) a valid signature. -/
def Accept {σ : Type} (k : UInt64) (keys : List (Key σ)) (dec : Option (MSig σ)) : Prop :=
  ∃ m, dec = some m ∧ 1 ≤ k.toNat ∧ k.toNat ≤ keys.length ∧ m.ba.size = (keys.length : Int) ∧
    kInt k ≤ (m.sigs.length : Int) ∧ m.sigs.length ≤ keys.length ∧
    kInt k ≤ ((marked m.ba keys.length).length : Int) ∧ AllMarkedValid keys m keys.length

/-- A bit array as `NewCompactBitArray(n)` shapes it (any content): the shape amino yields for
    honestly produced multisignatures. -/
def WellFormed (ba : BA) (n : Nat) : Prop :=
  match ba with
  | none => n = 0
  | some b => 0 < n ∧ b.extra = UInt8.ofNat (n % 8) ∧ b.elems.length = (n + 7) / 8


/-- `m` (a multisignature for `n` keys) represents the partial assignment
    `f : position → signature`: well-formed bit array, position `p` marked iff `f p` is defined,
    and `Sigs` lists the assigned signatures in position order. -/
def Represents {σ : Type} (n : Nat) (m : MSig σ) (f : Nat → Option σ) : Prop :=
  WellFormed m.ba n ∧ (∀ p : Nat, p < n → m.ba.getIndex (p : Int) = (f p).isSome) ∧
    m.sigs = (List.range n).filterMap f

/-- `AddSignature` calls in sequence on `m` (checked). -/
def addAllE {σ : Type} (m : MSig σ) : List (Nat × σ) → R (MSig σ)
  | [] => .ok m
  | (i, s) :: rest => do
    let m' ← addSignatureE m s (i : Int)
    addAllE m' rest

/-- `AddSignature` calls with ARBITRARY `int` indices (negative, ≥ n) in sequence (checked). -/
def addAllIntE {σ : Type} (m : MSig σ) : List (Int × σ) → R (MSig σ)
  | [] => .ok m
  | (i, s) :: rest => do
    let m' ← addSignatureE m s i
    addAllIntE m' rest

/-- invariant of everything built from `NewMultisig(n)` by `AddSignature` with arbitrary indices:
    well-formed bit array and at least as many signatures as marked positions (an out-of-range
    index appends a signature without marking anything). -/
def Built {σ : Type} (n : Nat) (m : MSig σ) : Prop :=
  WellFormed m.ba n ∧ (marked m.ba n).length ≤ m.sigs.length

/-- the assignment after a sequence of adds: the latest signature per position wins. -/
def assignAll {σ : Type} (f : Nat → Option σ) : List (Nat × σ) → Nat → Option σ
  | [] => f
  | (i, s) :: rest => assignAll (fun p => if p = i then some s else f p) rest

end GnoVerif.C44
