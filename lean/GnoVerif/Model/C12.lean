/-
Model for C12: published package code is immutable and namespace-protected.

What is mirrored, read line by line (file:line of /repo at the time of writing):

* `MsgAddPackage.ValidateBasic` (gno.land/pkg/sdk/vm/msgs.go:55) and
  `VMKeeper.AddPackage` (gno.land/pkg/sdk/vm/keeper.go:617-825): the ordered
  sequence of checks (`addChecks`), each with the result class it produces —
  including the Go panics that escape the handler (`MemPackageType.Validate` on
  `_test` / `/filetests` / non-user paths, `gnomod.toml not found`,
  `unsupported gno version`), which baseapp's recover turns into a failed tx.
* `gno.ValidateMemPackageAny` (gnovm/pkg/gnolang/mempackage.go:1174) with
  `std.MemPackage.ValidateBasic` (tm2/pkg/std/memfile.go:101) and the regular
  expressions `reFileName`, `rePkgName` (both), `rePkgPathURL`, `rePkgPathStd`,
  `Re_gnoUserPkgPath`, `Re_gnoStdPkgPath`, `reVersionSuffix`, ported as
  deterministic byte-level matchers (all classes are ASCII, so matching bytes
  equals matching runes); `IsRealmPath`, `IsPPackagePath`, `IsUserlib`,
  `IsStdlib`, `ValidatePkgNameMatchesPath`, `hasProdGnoFile`, `IsTestFile`.
* the package clause scan of `PackageNameFromFileBody` (go/parser with
  `PackageClauseOnly`) on the ASCII, comment-free fragment (`scanPkg`;
  `clauseDomain` is the syntactic guard both sides evaluate).
* `defaultStore.AddMemPackage` / `DeleteMemPackage` / `splitProdAllButProd` /
  `GetMemPackageAll` / `GetMemFile` / `FindPathsByPrefix`
  (gnovm/pkg/gnolang/store.go:994-1251): the two-key layout `pkg:<path>` and
  `pkg:<path>#allbutprod` as an ordered map (keys without the common `pkg:`),
  the private-redeploy delete, the merge + sort, the prefix range scan with
  suffix trimming and de-duplication.
* `VMKeeper.QueryFile`, `QueryPaths` (keeper.go:1199, 1439) with
  `std.SplitFilepath` and `collectWithLimit` (limit 0 still yields one path).
* the metadata patch `gm.Module = pkgPath; gm.AddPkg = {creator, height}` and
  the canonical text `gnomod.File.WriteString` produces (`renderGm`).
* `checkNamespacePermission` (keeper.go:496): skipped when the param is empty
  or the registry package does not exist; otherwise the registry's verdict.

Inputs the model does not compute (they are part of the op line): the GnoVM's
verdict on the sources (type check passes / fails / init panics) and the parsed
content of the submitted gnomod.toml (`GMod`).  Transaction atomicity (a failed
or panicking message writes nothing) is how baseapp.runTx runs the handler; the
model's `addPackage` returns the unchanged state in that case.
Core-only (no Mathlib).
-/
import GnoVerif.Spec.OMap
namespace GnoVerif.C12
open GnoVerif

/-! ### literals (byte strings; generated from the Go string literals) -/
def L_domainSlash : Bytes := [103, 110, 111, 46, 108, 97, 110, 100, 47] -- 'gno.land/'
def L_domain : Bytes := [103, 110, 111, 46, 108, 97, 110, 100] -- 'gno.land'
def L_r : Bytes := [114] -- 'r'
def L_p : Bytes := [112] -- 'p'
def L_test : Bytes := [95, 116, 101, 115, 116] -- '_test'
def L_filetest : Bytes := [95, 102, 105, 108, 101, 116, 101, 115, 116] -- '_filetest'
def L_filetests : Bytes := [47, 102, 105, 108, 101, 116, 101, 115, 116, 115] -- '/filetests'
def L_dotGno : Bytes := [46, 103, 110, 111] -- '.gno'
def L_dotToml : Bytes := [46, 116, 111, 109, 108] -- '.toml'
def L_dotMd : Bytes := [46, 109, 100] -- '.md'
def L_genGo : Bytes := [46, 103, 101, 110, 46, 103, 111] -- '.gen.go'
def L_testGno : Bytes := [95, 116, 101, 115, 116, 46, 103, 110, 111] -- '_test.gno'
def L_filetestGno : Bytes := [95, 102, 105, 108, 101, 116, 101, 115, 116, 46, 103, 110, 111] -- '_filetest.gno'
def L_abp : Bytes := [35, 97, 108, 108, 98, 117, 116, 112, 114, 111, 100] -- '#allbutprod'
def L_gnomodToml : Bytes := [103, 110, 111, 109, 111, 100, 46, 116, 111, 109, 108] -- 'gnomod.toml'
def L_gnoMod : Bytes := [103, 110, 111, 46, 109, 111, 100] -- 'gno.mod'
def L_license : Bytes := [108, 105, 99, 101, 110, 115, 101] -- 'license'
def L_licenseTxt : Bytes := [108, 105, 99, 101, 110, 115, 101, 46, 116, 120, 116] -- 'license.txt'
def L_licence : Bytes := [108, 105, 99, 101, 110, 99, 101] -- 'licence'
def L_licenceTxt : Bytes := [108, 105, 99, 101, 110, 99, 101, 46, 116, 120, 116] -- 'licence.txt'
def L_LICENSE : Bytes := [76, 73, 67, 69, 78, 83, 69] -- 'LICENSE'
def L_LICENCE : Bytes := [76, 73, 67, 69, 78, 67, 69] -- 'LICENCE'
def L_README : Bytes := [82, 69, 65, 68, 77, 69] -- 'README'
def L_package : Bytes := [112, 97, 99, 107, 97, 103, 101] -- 'package'
def L_namesPath : Bytes := [103, 110, 111, 46, 108, 97, 110, 100, 47, 114, 47, 115, 121, 115, 47, 110, 97, 109, 101, 115] -- 'gno.land/r/sys/names'
def L_claPath : Bytes := [103, 110, 111, 46, 108, 97, 110, 100, 47, 114, 47, 115, 121, 115, 47, 99, 108, 97] -- 'gno.land/r/sys/cla'
def L_addr0 : Bytes := [103, 49, 119, 110, 99, 113, 115, 97, 109, 107, 107, 97, 107, 99, 97, 103, 54, 109, 121, 55, 52, 57, 53, 51, 121, 51, 103, 57, 117, 115, 117, 109, 50, 109, 112, 117, 116, 117, 121, 104] -- 'g1wncqsamkkakcag6my74953y3g9usum2mputuyh'
def L_addr1 : Bytes := [103, 49, 109, 103, 102, 56, 57, 56, 122, 117, 52, 108, 115, 120, 116, 48, 51, 112, 115, 120, 122, 101, 109, 115, 101, 104, 50, 119, 117, 117, 55, 117, 108, 107, 121, 119, 51, 114, 117, 117] -- 'g1mgf898zu4lsxt03psxzemseh2wuu7ulkyw3ruu'
def L_addr2 : Bytes := [103, 49, 114, 116, 55, 54, 109, 119, 122, 114, 99, 120, 57, 51, 122, 52, 55, 109, 122, 114, 115, 50, 107, 57, 55, 103, 110, 118, 55, 50, 106, 48, 118, 119, 53, 119, 109, 102, 104, 48] -- 'g1rt76mwzrcx93z47mzrs2k97gnv72j0vw5wmfh0'
def L_stdlibs : Bytes := [115, 116, 100, 108, 105, 98, 115] -- 'stdlibs'
def L_std : Bytes := [115, 116, 100] -- 'std'
def L_modulePre : Bytes := [109, 111, 100, 117, 108, 101, 32, 61, 32, 34] -- 'module = "'
def L_gnoPre : Bytes := [103, 110, 111, 32, 61, 32, 34] -- 'gno = "'
def L_q_nl : Bytes := [34, 10] -- '"\n'
def L_ignore : Bytes := [105, 103, 110, 111, 114, 101, 32, 61, 32, 116, 114, 117, 101, 10] -- 'ignore = true\n'
def L_draft : Bytes := [100, 114, 97, 102, 116, 32, 61, 32, 116, 114, 117, 101, 10] -- 'draft = true\n'
def L_private : Bytes := [112, 114, 105, 118, 97, 116, 101, 32, 61, 32, 116, 114, 117, 101, 10] -- 'private = true\n'
def L_addpkg : Bytes := [10, 91, 97, 100, 100, 112, 107, 103, 93, 10, 32, 32, 99, 114, 101, 97, 116, 111, 114, 32, 61, 32, 34] -- '\n[addpkg]\n  creator = "'
def L_height : Bytes := [32, 32, 104, 101, 105, 103, 104, 116, 32, 61, 32] -- '  height = '
def L_v09 : Bytes := [48, 46, 57] -- '0.9'
def L_names : Bytes := [110, 97, 109, 101, 115] -- 'names'
def L_namesGno : Bytes := [110, 97, 109, 101, 115, 46, 103, 110, 111] -- 'names.gno'
def L_underSlash : Bytes := [95, 47] -- '_/'
def goKeywords : List Bytes := [
  [98, 114, 101, 97, 107] /- break -/,
  [99, 97, 115, 101] /- case -/,
  [99, 104, 97, 110] /- chan -/,
  [99, 111, 110, 115, 116] /- const -/,
  [99, 111, 110, 116, 105, 110, 117, 101] /- continue -/,
  [100, 101, 102, 97, 117, 108, 116] /- default -/,
  [100, 101, 102, 101, 114] /- defer -/,
  [101, 108, 115, 101] /- else -/,
  [102, 97, 108, 108, 116, 104, 114, 111, 117, 103, 104] /- fallthrough -/,
  [102, 111, 114] /- for -/,
  [102, 117, 110, 99] /- func -/,
  [103, 111] /- go -/,
  [103, 111, 116, 111] /- goto -/,
  [105, 102] /- if -/,
  [105, 109, 112, 111, 114, 116] /- import -/,
  [105, 110, 116, 101, 114, 102, 97, 99, 101] /- interface -/,
  [109, 97, 112] /- map -/,
  [112, 97, 99, 107, 97, 103, 101] /- package -/,
  [114, 97, 110, 103, 101] /- range -/,
  [114, 101, 116, 117, 114, 110] /- return -/,
  [115, 101, 108, 101, 99, 116] /- select -/,
  [115, 116, 114, 117, 99, 116] /- struct -/,
  [115, 119, 105, 116, 99, 104] /- switch -/,
  [116, 121, 112, 101] /- type -/,
  [118, 97, 114] /- var -/]
def L_namesRealm : Bytes := [112, 97, 99, 107, 97, 103, 101, 32, 110, 97, 109, 101, 115, 10, 10, 118, 97, 114, 32, 111, 119, 110, 101, 114, 115, 32, 61, 32, 109, 97, 112, 91, 115, 116, 114, 105, 110, 103, 93, 97, 100, 100, 114, 101, 115, 115, 123, 125, 10, 10, 102, 117, 110, 99, 32, 82, 101, 103, 105, 115, 116, 101, 114, 40, 99, 117, 114, 32, 114, 101, 97, 108, 109, 44, 32, 110, 115, 32, 115, 116, 114, 105, 110, 103, 41, 32, 123, 10, 9, 99, 97, 108, 108, 101, 114, 32, 58, 61, 32, 99, 117, 114, 46, 80, 114, 101, 118, 105, 111, 117, 115, 40, 41, 46, 65, 100, 100, 114, 101, 115, 115, 40, 41, 10, 9, 105, 102, 32, 95, 44, 32, 116, 97, 107, 101, 110, 32, 58, 61, 32, 111, 119, 110, 101, 114, 115, 91, 110, 115, 93, 59, 32, 116, 97, 107, 101, 110, 32, 123, 10, 9, 9, 112, 97, 110, 105, 99, 40, 34, 110, 97, 109, 101, 115, 112, 97, 99, 101, 32, 116, 97, 107, 101, 110, 34, 41, 10, 9, 125, 10, 9, 111, 119, 110, 101, 114, 115, 91, 110, 115, 93, 32, 61, 32, 99, 97, 108, 108, 101, 114, 10, 125, 10, 10, 102, 117, 110, 99, 32, 73, 115, 65, 117, 116, 104, 111, 114, 105, 122, 101, 100, 65, 100, 100, 114, 101, 115, 115, 70, 111, 114, 78, 97, 109, 101, 115, 112, 97, 99, 101, 40, 97, 100, 100, 114, 32, 97, 100, 100, 114, 101, 115, 115, 44, 32, 110, 115, 32, 115, 116, 114, 105, 110, 103, 41, 32, 98, 111, 111, 108, 32, 123, 10, 9, 105, 102, 32, 115, 116, 114, 105, 110, 103, 40, 97, 100, 100, 114, 41, 32, 61, 61, 32, 110, 115, 32, 123, 10, 9, 9, 114, 101, 116, 117, 114, 110, 32, 116, 114, 117, 101, 10, 9, 125, 10, 9, 111, 44, 32, 111, 107, 32, 58, 61, 32, 111, 119, 110, 101, 114, 115, 91, 110, 115, 93, 10, 9, 114, 101, 116, 117, 114, 110, 32, 111, 107, 32, 38, 38, 32, 111, 32, 61, 61, 32, 97, 100, 100, 114, 10, 125, 10]

/-! ### bytes helpers -/

def isLower (c : UInt8) : Bool := 97 ≤ c && c ≤ 122
def isUpper (c : UInt8) : Bool := 65 ≤ c && c ≤ 90
def isDigit (c : UInt8) : Bool := 48 ≤ c && c ≤ 57
def cUnder : UInt8 := 95
def cDash : UInt8 := 45
def cDot : UInt8 := 46
def cSlash : UInt8 := 47
def cHash : UInt8 := 35

/-- `strings.Split(s, sep)` for a one-byte separator. -/
def splitOn (sep : UInt8) : Bytes → List Bytes
  | [] => [[]]
  | c :: rest =>
    if c == sep then [] :: splitOn sep rest
    else match splitOn sep rest with
      | h :: t => (c :: h) :: t
      | [] => [[c]]

def joinWith (sep : Bytes) : List Bytes → Bytes
  | [] => []
  | [a] => a
  | a :: b :: r => a ++ sep ++ joinWith sep (b :: r)

def hasSuffix (suf s : Bytes) : Bool := suf.isSuffixOf s
def hasPrefix (pre s : Bytes) : Bool := pre.isPrefixOf s

def toLowerAscii (s : Bytes) : Bytes := s.map fun c => if isUpper c then c + 32 else c

def trimSuffix (suf s : Bytes) : Bytes := if hasSuffix suf s then s.take (s.length - suf.length) else s

/-! ### the regular expressions, as deterministic matchers -/

def isLowerDigit (c : UInt8) : Bool := isLower c || isDigit c

/-- after an alphanumeric of `Re_name`: `[a-z0-9]*([_-][a-z0-9]+)*$`. -/
def nameTail : Bytes → Bool
  | [] => true
  | [c] => isLowerDigit c
  | c :: d :: rest =>
    if isLowerDigit c then nameTail (d :: rest)
    else if c == cUnder || c == cDash then isLowerDigit d && nameTail rest
    else false

/-- `Re_name = [a-z][a-z0-9]*([_-][a-z0-9]+)*` (anchored). -/
def matchName : Bytes → Bool
  | [] => false
  | c :: rest => isLower c && nameTail rest

/-- `[a-z0-9-]+` -/
def isLabel (l : Bytes) : Bool := !l.isEmpty && l.all fun c => isLowerDigit c || c == cDash

/-- `Re_domain = (?:[a-z0-9-]+\.)+[a-z]{2,63}`; `tldMax = none` for `rePkgPathURL`'s `[a-z]{2,}`. -/
def matchDomain (tldMax : Option Nat) (d : Bytes) : Bool :=
  let labels := splitOn cDot d
  match labels.reverse with
  | tld :: (l :: ls) =>
    (l :: ls).all isLabel && tld.all isLower && 2 ≤ tld.length &&
      (match tldMax with | some n => tld.length ≤ n | none => true)
  | _ => false

/-- the parts of `Re_gnoUserPkgPath`: (LETTER, USER, REPO parts). -/
def parseUser (p : Bytes) : Option (UInt8 × Bytes × List Bytes) :=
  match splitOn cSlash p with
  | dom :: [l] :: user :: repo =>
    if matchDomain (some 63) dom && isLower l && matchName user && repo.all matchName then some (l, user, repo) else none
  | _ => none

/-- `IsUserlib` -/
def isUserPath (p : Bytes) : Bool := (parseUser p).isSome

/-- `IsStdlib`: `Re_name(/Re_name)*` -/
def isStdPath (p : Bytes) : Bool := (splitOn cSlash p).all matchName

def repoString (repo : List Bytes) : Bytes := joinWith [cSlash] repo

/-- `IsRealmPath` -/
def isRealmPath (p : Bytes) : Bool :=
  match parseUser p with
  | some (l, _, repo) => l == 114 && !hasSuffix L_test (repoString repo)
  | none => false

/-- `IsPPackagePath` -/
def isPPackagePath (p : Bytes) : Bool :=
  match parseUser p with
  | some (l, _, repo) => l == 112 && !hasSuffix L_test (repoString repo)
  | none => false

/-- the namespace `reNamespace` captures on a valid user path: the USER part. -/
def namespaceOf (p : Bytes) : Bytes :=
  match parseUser p with
  | some (_, user, _) => user
  | none => []

/-- tm2/pkg/std `rePkgName = ^[a-z][a-z0-9_]*$` -/
def rePkgNameStd : Bytes → Bool
  | [] => false
  | c :: r => isLower c && r.all fun d => isLowerDigit d || d == cUnder

/-- gnolang `rePkgName = ^[a-z][a-z0-9_]+$` -/
def rePkgNameGno (n : Bytes) : Bool := rePkgNameStd n && 2 ≤ n.length

/-- `rePkgPathURL = ^([a-z0-9-]+\.)*[a-z0-9-]+\.[a-z]{2,}(\/[a-z0-9\-_]+)+$` -/
def rePkgPathURL (p : Bytes) : Bool :=
  match splitOn cSlash p with
  | dom :: seg :: segs =>
    matchDomain none dom && (seg :: segs).all fun s => !s.isEmpty && s.all fun c => isLowerDigit c || c == cDash || c == cUnder
  | _ => false

/-- `rePkgPathStd = ^([a-z][a-z0-9_]*\/)*[a-z][a-z0-9_]+$` -/
def rePkgPathStd (p : Bytes) : Bool :=
  match (splitOn cSlash p).reverse with
  | last :: init => rePkgNameGno last && init.all rePkgNameStd
  | [] => false

def isExtChar (c : UInt8) : Bool := isLowerDigit c || c == cUnder

/-- `reFileName = ^(([a-z0-9_\-]+|[A-Z0-9_\-]+)(\.[a-z0-9_]+)*\.[a-z0-9_]{1,7}|LICENSE|license|LICENCE|licence|README)$` -/
def reFileName (n : Bytes) : Bool :=
  n == L_LICENSE || n == L_license || n == L_LICENCE || n == L_licence || n == L_README ||
  match splitOn cDot n with
  | base :: s :: segs =>
    !base.isEmpty &&
    (base.all (fun c => isLowerDigit c || c == cUnder || c == cDash) ||
     base.all (fun c => isUpper c || isDigit c || c == cUnder || c == cDash)) &&
    (s :: segs).all (fun x => !x.isEmpty && x.all isExtChar) &&
    (match (s :: segs).reverse with | ext :: _ => ext.length ≤ 7 | [] => false)
  | _ => false

/-- `reVersionSuffix = ^v(0|[1-9][0-9]*)$` -/
def isVersionSuffix : Bytes → Bool
  | [118, 48] => true
  | 118 :: d :: r => 49 ≤ d && d ≤ 57 && r.all isDigit
  | _ => false

/-! ### package clause scan (go/parser, PackageClauseOnly) on the ASCII, comment-free fragment -/

def isWs (nl : Bool) (c : UInt8) : Bool := c == 32 || c == 9 || c == 13 || (nl && c == 10)

def skipWs (nl : Bool) : Bytes → Bytes
  | [] => []
  | c :: r => if isWs nl c then skipWs nl r else c :: r

def isLetter (c : UInt8) : Bool := isLower c || isUpper c || c == cUnder
def isIdentChar (c : UInt8) : Bool := isLetter c || isDigit c

/-- the declared package name, or `none` where go/parser reports an error. -/
def scanPkg (b : Bytes) : Option Bytes :=
  let (w, b2) := (skipWs true b).span isIdentChar
  if w != L_package then none else
  let (n, b4) := (skipWs true b2).span isIdentChar
  match n with
  | [] => none
  | c :: _ =>
    if !isLetter c then none
    else if goKeywords.contains n then none
    else match skipWs false b4 with
      | [] => some n
      | d :: _ => if d == 10 || d == 59 || d == 41 || d == 125 then some n else none

def headOutside : Bytes → Bool
  | [] => false
  | c :: _ => 128 ≤ c || c == cSlash

def headHigh : Bytes → Bool
  | [] => false
  | c :: _ => 128 ≤ c

/-- the fragment `scanPkg` covers: no non-ASCII byte and no `/` (comment) up to the end of the clause. -/
def clauseDomain (b : Bytes) : Bool :=
  let b1 := skipWs true b
  match b1 with
  | [] => true
  | c :: _ =>
    if headOutside b1 then false else if !isLetter c then true else
    let (w, b2) := b1.span isIdentChar
    if headHigh b2 then false else
    if w != L_package then true else
    let b3 := skipWs true b2
    match b3 with
    | [] => true
    | c :: _ =>
      if headOutside b3 then false else if !isLetter c then true else
      let (_, b4) := b3.span isIdentChar
      if headHigh b4 then false else
      !headOutside (skipWs false b4)

/-! ### messages and state -/

structure File where
  name : Bytes
  body : Bytes
  deriving Repr, DecidableEq

inductive ModKind | self | other | empty | invalid
  deriving Repr, DecidableEq
inductive GnoKind | latest | empty | old
  deriving Repr, DecidableEq
inductive Verdict | ok | typecheck | initPanic
  deriving Repr, DecidableEq

/-- the parsed content of the submitted gnomod.toml (an input). -/
structure GMod where
  present : Bool
  broken : Bool
  mod : ModKind
  gno : GnoKind
  priv : Bool
  draft : Bool
  ignore : Bool
  replace : Bool
  addpkg : Bool
  noise : Bool
  deriving Repr, DecidableEq

/-- a file of the message; `body = none` marks the gnomod.toml entry (content = `gm`). -/
structure MFile where
  name : Bytes
  body : Option Bytes
  deriving Repr, DecidableEq

structure Msg where
  height : Nat
  acct : Nat          -- 0..2 funded accounts, 3 no account, 4 zero address
  path : Bytes
  name : Bytes
  gm : GMod
  verdict : Verdict
  files : List MFile
  deriving Repr, DecidableEq

structure State where
  /-- package values: path ↦ private flag (`GetPackage(path) != nil`, `pv.Private`). -/
  pkgs : OMapOf Bool
  /-- mempackage blobs: iavl keys `pkg:<k>` ↦ files (k = path or path#allbutprod). -/
  blobs : OMapOf (List File)
  /-- registry realm state: namespace ↦ owning account. -/
  owners : OMapOf Nat
  /-- vm param sysnames_pkgpath is non-empty. -/
  namesParam : Bool
  deriving Repr, DecidableEq

def State.init : State := { pkgs := [], blobs := [], owners := [], namesParam := true }

inductive Res
  | ok | basicInvalidAddr | basicPkgPath | basicFile
  | unknownAddr | pkgPath | exists_ | package | typecheck | unauthorized | other
  | panicMptype | panicNogmod | panicGnover | panicNopkg
  deriving Repr, DecidableEq

/-! ### validation -/

def isTestFile (n : Bytes) : Bool := hasSuffix L_testGno n || hasSuffix L_filetestGno n

/-- `sort.SliceIsSorted` with `less = name[i] < name[j]`. -/
def sortedNames : List Bytes → Bool
  | a :: b :: r => !(decide (b < a)) && sortedNames (b :: r)
  | _ => true

def uniqNames : List Bytes → Bool
  | [] => true
  | a :: r => !r.contains a && uniqNames r

/-- `std.MemPackage.ValidateBasic` as a boolean (every failure maps to the same class). -/
def stdValidateBasic (name path : Bytes) (files : List MFile) : Bool :=
  !files.isEmpty && name.length ≤ 256 && path.length ≤ 256 && rePkgNameStd name &&
  (rePkgPathURL path || rePkgPathStd path) &&
  sortedNames (files.map (·.name)) &&
  uniqNames (files.map fun f => toLowerAscii f.name) &&
  files.all fun f => !f.name.isEmpty && f.name.length ≤ 256 && reFileName f.name

/-- `ValidatePkgNameMatchesPath` -/
def nameMatchesPath (name path : Bytes) : Bool :=
  match (splitOn cSlash path).reverse with
  | [only] => only.isEmpty || name == only
  | last :: prev :: _ =>
    if isVersionSuffix last then
      if isVersionSuffix prev then false else (prev.isEmpty || name == prev)
    else last.isEmpty || name == last
  | [] => true

def bodyOf (f : MFile) : Bytes := f.body.getD []

def goodExt (n : Bytes) : Bool := hasSuffix L_dotGno n || hasSuffix L_dotToml n || hasSuffix L_dotMd n
def goodFile (n : Bytes) : Bool :=
  let l := toLowerAscii n
  l == L_license || l == L_licenseTxt || l == L_licence || l == L_licenceTxt || l == L_gnoMod

/-- one iteration of the file loop of `ValidateMemPackageAny` for `MPUserAll`: no error appended. -/
def fileOK (pname : Bytes) (f : MFile) : Bool :=
  !hasSuffix L_genGo f.name && !hasPrefix [cDot] f.name && !f.name.contains cSlash &&
  (goodExt f.name || goodFile f.name) &&
  (if hasSuffix L_dotGno f.name then
    match scanPkg (bodyOf f) with
    | none => false
    | some pn =>
      (pn == pname || rePkgNameGno pn) &&
      (if hasSuffix L_filetestGno f.name then true
       else if hasSuffix L_testGno f.name then pn == pname || pn == pname ++ L_test
       else pn == pname)
   else true)

/-- the file sets `pkgNameFound`. -/
def nameFound (pname : Bytes) (f : MFile) : Bool :=
  hasSuffix L_dotGno f.name &&
  match scanPkg (bodyOf f) with
  | none => false
  | some pn =>
    if hasSuffix L_filetestGno f.name then pn == pname
    else if hasSuffix L_testGno f.name then pn == pname || pn == pname ++ L_test
    else pn == pname

/-- `hasProdGnoFile` -/
def hasProd (files : List MFile) : Bool :=
  files.any fun f => hasSuffix L_dotGno f.name && !isTestFile f.name

def addrOf : Nat → Bytes
  | 0 => L_addr0
  | 1 => L_addr1
  | 2 => L_addr2
  | _ => []

/-- the registry realm's `IsAuthorizedAddressForNamespace`. -/
def authorized (s : State) (acct : Nat) (ns : Bytes) : Bool :=
  ns == addrOf acct || OMap.get s.owners ns == some acct

/-- registry configured: the param is set and the registry package exists. -/
def registryOn (s : State) : Bool := s.namesParam && (OMap.get s.pkgs L_namesPath).isSome

/-- The checks of `MsgAddPackage.ValidateBasic` + `VMKeeper.AddPackage` in source order:
    (failure condition, result).  The first failing check decides. -/
def addChecks (s : State) (m : Msg) : List (Bool × Res) :=
  let fs := m.files
  [ (m.acct == 4, .basicInvalidAddr),
    (m.path.isEmpty, .basicPkgPath),
    (fs.isEmpty, .basicFile),
    (m.acct == 3, .unknownAddr),
    -- gno.ValidateMemPackageAny
    (m.path.contains cHash, .pkgPath),
    (!stdValidateBasic m.name m.path fs, .pkgPath),
    (!(isUserPath m.path || isStdPath m.path), .pkgPath),
    (hasSuffix L_test m.path, .panicMptype),
    (hasSuffix L_filetests m.path, .panicMptype),
    (!isUserPath m.path, .panicMptype),
    (!rePkgNameGno m.name, .pkgPath),
    (!nameMatchesPath m.name m.path, .pkgPath),
    (!fs.any (fun f => hasSuffix L_dotGno f.name), .pkgPath),
    (!fs.all (fileOK m.name), .pkgPath),
    (!fs.any (nameFound m.name), .pkgPath),
    -- keeper
    (!hasProd fs, .package),
    (!hasPrefix L_domainSlash m.path, .pkgPath),
    (OMap.get s.pkgs m.path == some false, .exists_),
    (!(isRealmPath m.path || isPPackagePath m.path), .pkgPath),
    (hasSuffix L_test m.path || hasSuffix L_filetest m.path, .pkgPath),
    -- TypeCheckMemPackage (strict mode)
    (!m.gm.present, .panicNogmod),
    (m.gm.broken || m.gm.mod == .empty || m.gm.mod == .invalid, .typecheck),
    (m.gm.gno == .old, .panicGnover),
    (m.verdict == .typecheck, .typecheck),
    -- keeper-only checks
    (m.gm.replace, .package),
    (OMap.get s.pkgs m.path == some true && !m.gm.priv, .package),
    (m.gm.priv && !isRealmPath m.path, .package),
    (m.gm.draft && m.height > 0, .package),
    (fs.any (fun f => f.name == L_gnoMod), .package),
    (registryOn s && !authorized s m.acct (namespaceOf m.path), .unauthorized),
    (m.verdict == .initPanic, .other) ]

def firstFail : List (Bool × Res) → Res
  | [] => .ok
  | (c, r) :: rest => if c then r else firstFail rest

def addDecision (s : State) (m : Msg) : Res := firstFail (addChecks s m)

/-! ### the stored package -/

def natDigits (n : Nat) : Bytes := (toString n).toUTF8.toList

/-- `gnomod.File.WriteString` of the patched file: module = path, creator, height. -/
def renderGm (m : Msg) : Bytes :=
  L_modulePre ++ m.path ++ L_q_nl ++
  L_gnoPre ++ (if m.gm.gno == .latest then L_v09 else []) ++ L_q_nl ++
  (if m.gm.ignore then L_ignore else []) ++
  (if m.gm.draft then L_draft else []) ++
  (if m.gm.priv then L_private else []) ++
  L_addpkg ++ addrOf m.acct ++ L_q_nl ++
  (if m.height == 0 then [] else L_height ++ natDigits m.height ++ [10])

/-- the files as stored: the submitted ones, gnomod.toml replaced by the patched text. -/
def stored (m : Msg) : List File :=
  m.files.map fun f => match f.body with
    | some b => ⟨f.name, b⟩
    | none => ⟨f.name, renderGm m⟩

def abpKey (p : Bytes) : Bytes := p ++ L_abp

/-- `DeleteMemPackage` (if a package value existed) then `AddMemPackage` (prod / #allbutprod split). -/
def applyAdd (s : State) (m : Msg) : State :=
  let fs := stored m
  let prod := fs.filter fun f => !isTestFile f.name
  let abp := fs.filter fun f => isTestFile f.name
  let b0 := if (OMap.get s.pkgs m.path).isSome then OMap.del (OMap.del s.blobs m.path) (abpKey m.path) else s.blobs
  let b1 := OMap.set b0 m.path prod
  let b2 := if abp.isEmpty then b1 else OMap.set b1 (abpKey m.path) abp
  { s with pkgs := OMap.set s.pkgs m.path m.gm.priv, blobs := b2 }

/-- one MsgAddPackage transaction: a failed (or panicking) message writes nothing. -/
def addPackage (s : State) (m : Msg) : State × Res :=
  match addDecision s m with
  | .ok => (applyAdd s m, .ok)
  | r => (s, r)

/-! ### queries -/

inductive MP
  | none | panic | some (fs : List File)
  deriving Repr, DecidableEq

def insertByName (f : File) : List File → List File
  | [] => [f]
  | g :: r => if f.name < g.name then f :: g :: r else g :: insertByName f r

def sortByName : List File → List File
  | [] => []
  | f :: r => insertByName f (sortByName r)

/-- `GetMemPackageAll(path)` for a non-stdlib `path` (key = path). -/
def memPackageAll (s : State) (p : Bytes) : MP :=
  let prod := OMap.get s.blobs p
  let abp := OMap.get s.blobs (abpKey p)
  if prod.isNone && abp.isNone then .none
  else if !(isStdPath p || isUserPath p) then .panic     -- MPAnyAll.Decide(path)
  else .some (sortByName (prod.getD [] ++ abp.getD []))

inductive QRes
  | file (b : Bytes) | listing (b : Bytes) | errFile | errPackage | panicBadPath
  deriving Repr, DecidableEq

/-- `path.Split`: (dir incl. trailing slash, file). -/
def pathSplit (fp : Bytes) : Bytes × Bytes :=
  match (splitOn cSlash fp).reverse with
  | file :: init => (if init.isEmpty then [] else joinWith [cSlash] init.reverse ++ [cSlash], file)
  | [] => ([], [])

def trimRightSlash (d : Bytes) : Bytes := (d.reverse.dropWhile (· == cSlash)).reverse

/-- `std.SplitFilepath` -/
def splitFilepath (fp : Bytes) : Bytes × Bytes :=
  let (dir, file) := pathSplit fp
  if dir.isEmpty then (file, [])
  else if file.contains cDot || file == L_LICENSE || file == L_README || file.isEmpty then (trimRightSlash dir, file)
  else (dir ++ file, [])

/-- `VMKeeper.QueryFile` -/
def queryFile (s : State) (fp : Bytes) : QRes :=
  let (dir, file) := splitFilepath fp
  match memPackageAll s dir with
  | .panic => .panicBadPath
  | .none => if file.isEmpty then .errPackage else .errFile
  | .some fs =>
    if file.isEmpty then .listing (joinWith [10] (fs.map (·.name)))
    else match fs.find? (fun f => f.name == file) with
      | some f => .file f.body
      | none => .errFile

def incLast (p : Bytes) : Bytes :=
  match p.reverse with
  | c :: r => ((c + 1) :: r).reverse
  | [] => []

def dedupAdjacent : List Bytes → List Bytes
  | a :: b :: r => if a == b then dedupAdjacent (b :: r) else a :: dedupAdjacent (b :: r)
  | l => l

def decodeKey (k : Bytes) : Bytes := if hasPrefix L_underSlash k then k.drop 2 else k

/-- `FindPathsByPrefix(prefix)` for a non-empty prefix. -/
def findPaths (s : State) (pre : Bytes) : List Bytes :=
  let ks := (OMap.range s.blobs (some pre) (some (incLast pre)) true).map (·.1)
  dedupAdjacent (ks.filterMap fun k =>
    let k' := trimSuffix L_abp k
    if hasPrefix pre k' then some (decodeKey k') else none)

/-- `collectWithLimit`: the limit is tested after appending. -/
def limitTake (limit : Nat) (l : List Bytes) : List Bytes := l.take (max limit 1)

def isNsChar (c : UInt8) : Bool := c == 126 || c == cUnder || isLower c || isUpper c || isDigit c || c == cSlash || c == cDash

/-- `path.Clean` on a slash-separated string without dots: drop empty elements. -/
def cleanSub (sub : Bytes) : Bytes := joinWith [cSlash] ((splitOn cSlash sub).filter (!·.isEmpty))

/-- `VMKeeper.QueryPaths`; `none` = error. -/
def queryPaths (s : State) (target : Bytes) (limit : Nat) : Option (List Bytes) :=
  match target with
  | 64 :: rest =>
    let parts := splitOn cSlash rest
    let name := parts.headD []
    let hasSub := parts.length ≥ 2
    let sub := cleanSub (joinWith [cSlash] (parts.drop 1))
    if name.isEmpty || !name.all isNsChar then none else
    let tail := name ++ (if sub.isEmpty then [] else cSlash :: sub) ++ (if hasSub then [] else [cSlash])
    let rpath := L_domainSlash ++ L_r ++ [cSlash] ++ tail
    let ppath := L_domainSlash ++ L_p ++ [cSlash] ++ tail
    some (limitTake limit (findPaths s ppath ++ findPaths s rpath))
  | _ => some (limitTake limit (findPaths s target))

/-! ### the registry and the remaining ops -/

def namesMsg (acct : Nat) : Msg :=
  { height := 1, acct := acct, path := L_namesPath, name := L_names,
    gm := { present := true, broken := false, mod := .self, gno := .latest, priv := false, draft := false,
            ignore := false, replace := false, addpkg := false, noise := false },
    verdict := .ok,
    files := [⟨L_gnomodToml, none⟩, ⟨L_namesGno, some L_namesRealm⟩] }

/-- MsgCall names.Register(ns) from `acct` (0..2). -/
def register (s : State) (acct : Nat) (ns : Bytes) : State × Res :=
  if (OMap.get s.pkgs L_namesPath).isNone then (s, .panicNopkg)
  else if (OMap.get s.owners ns).isSome then (s, .other)
  else ({ s with owners := OMap.set s.owners ns acct }, .ok)

inductive Op
  | add (m : Msg)
  | names (acct : Nat)
  | param (on : Bool)
  | reg (acct : Nat) (ns : Bytes)
  deriving Repr, DecidableEq

def step (s : State) : Op → State × Res
  | .add m => addPackage s m
  | .names a => addPackage s (namesMsg a)
  | .param b => ({ s with namesParam := b }, .ok)
  | .reg a ns => register s a ns

def run (s : State) : List Op → State
  | [] => s
  | op :: ops => run (step s op).1 ops

/-- every package listed under the chain domain with its files, through the queries (what the digest covers). -/
def walk (s : State) : List (Bytes × List File) :=
  (findPaths s L_domainSlash).map fun p =>
    (p, match memPackageAll s p with | .some fs => fs | _ => [])

/-! ### /p/ post-init mutation attempts (correspondence-only table: every mutating variant is rejected) -/

/-- variant ↦ (accepted?, rejected at the call (true) or at deployment (false)). -/
def pmutExpect : Nat → Option (Bool × Bool)
  | 0 => some (true, true)
  | 14 => some (true, true)
  | 9 => some (false, false)
  | n => if n < 15 then some (false, true) else none

end GnoVerif.C12
