/-
C14 — executable model of the bank ledger (tm2/pkg/sdk/bank/{keeper,supply,balance}.go,
the part of tm2/pkg/sdk/auth/keeper.go it uses, and the `std.Coins` arithmetic of
tm2/pkg/std/coin.go it calls).  Core Lean only.

The store is modelled as three keyspaces of one KV store, each an association
list with the store's Set/Delete/Get semantics:

  accts  : /a/<addr>            ↦ account object (address field, number, account-tier Coins, kind)
  split  : /b/<addr><denom>     ↦ amount         (split tier: every denom outside the allowlist)
  supply : /supply/<denom>      ↦ amount         (recorded total supply)

plus the global account-number counter, the `restricted_denoms` bank param and
"has the block time passed the vesting end".  The account tier allowlist is a
parameter `tier : Denom → Bool` of every function.

Every keeper method is modelled at two levels:

* the RAW step `State → … → State × Option Fail`: what the Go method does to the
  store it is handed, including writes that happened before an error or panic
  (e.g. `sendCoins` = SubtractCoins then AddCoins: a failing AddCoins leaves the
  debit written; `InputOutputCoins` debits inputs one by one);
* the TRANSACTIONAL step `txStep`: the raw step run inside a cache store that is
  written on success and discarded on error/panic — what BaseApp.runTx does.

Vesting: the lock schedule is NOT modelled.  An account of kind `vesting locked`
carries the currently locked coins as data; `unlocked` says the schedule has
completed.  All theorems hold for arbitrary `locked`, i.e. for every schedule.
-/
namespace GnoVerif.C14

abbrev Addr := Nat
abbrev Denom := String

def maxInt64 : Int := 9223372036854775807
def minInt64 : Int := -9223372036854775808
def inI64 (x : Int) : Bool := decide (minInt64 ≤ x) && decide (x ≤ maxInt64)

structure Coin where
  denom : Denom
  amount : Int
deriving DecidableEq, Repr

abbrev Coins := List Coin

/-- How a keeper call can fail: a returned error or a Go panic, by class. -/
inductive Fail where
  | err (cls : String)
  | panic (cls : String)
deriving DecidableEq, Repr

/-! ## std.ValidateDenom / Coins.validate (coin.go) -/

def leadOk (c : Char) : Bool := (decide ('a' ≤ c) && decide (c ≤ 'z')) || c == '/'
def contOk (c : Char) : Bool :=
  (decide ('a' ≤ c) && decide (c ≤ 'z')) || (decide ('0' ≤ c) && decide (c ≤ '9')) ||
  c == '_' || c == '.' || c == ':' || c == '/' || c == '-'

/-- MaxDenomLength = len("/") + pkgPathLimit(256) + len(":") + maxBaseDenomLength(16). -/
def maxDenomLength : Nat := 274

/-- `ValidateDenom(d) == nil`: length ≤ 274 and first byte in [a-z] or slash, then two or more of [a-z0-9_.:] slash dash. -/
def validDenom (d : Denom) : Bool :=
  decide (d.utf8ByteSize ≤ maxDenomLength) &&
  match d.toList with
  | [] => false
  | c :: rest => leadOk c && decide (2 ≤ rest.length) && rest.all contOk

/-- the tail loop of `Coins.validate`: every further coin has a valid denom strictly
above the previous one and a positive amount. -/
def validFrom (low : Denom) : Coins → Bool
  | [] => true
  | c :: rest => validDenom c.denom && decide (low < c.denom) && decide (0 < c.amount) && validFrom c.denom rest

/-- `Coins.IsValid()` / `Coins.Validate() == nil`. -/
def coinsValid : Coins → Bool
  | [] => true
  | c :: rest => validDenom c.denom && decide (0 < c.amount) && validFrom c.denom rest

/-- `Coins.IsZero()`. -/
def coinsIsZero (cs : Coins) : Bool := cs.all (fun c => c.amount == 0)

/-- `Coins.IsAllPositive()`: non-empty and every amount positive. -/
def allPositive (cs : Coins) : Bool := !cs.isEmpty && cs.all (fun c => decide (0 < c.amount))

/-- `removeZeroCoins`. -/
def removeZero (cs : Coins) : Coins := cs.filter (fun c => c.amount != 0)

/-- `Coins.AddUnsafe`: the sorted merge, adding amounts of equal denoms (panics when
`overflow.Add` fails) and dropping zero results. -/
def addUnsafe : Coins → Coins → Except Fail Coins
  | [], b => .ok (removeZero b)
  | a :: ra, [] => .ok (removeZero (a :: ra))
  | a :: ra, b :: rb =>
    if a.denom < b.denom then
      match addUnsafe ra (b :: rb) with
      | .error f => .error f
      | .ok rest => .ok (if a.amount = 0 then rest else a :: rest)
    else if a.denom = b.denom then
      if inI64 (a.amount + b.amount) then
        match addUnsafe ra rb with
        | .error f => .error f
        | .ok rest => .ok (if a.amount + b.amount = 0 then rest else ⟨a.denom, a.amount + b.amount⟩ :: rest)
      else .error (.panic "overflow")
    else
      match addUnsafe (a :: ra) rb with
      | .error f => .error f
      | .ok rest => .ok (if b.amount = 0 then rest else b :: rest)
termination_by a b => a.length + b.length
decreasing_by all_goals simp_wf <;> omega

/-- `Coins.Add`: AddUnsafe, then panic unless the result validates. -/
def coinsAdd (a b : Coins) : Except Fail Coins :=
  match addUnsafe a b with
  | .error f => .error f
  | .ok r => if coinsValid r then .ok r else .error (.panic "invalid-result")

/-- `Coins.negative`. -/
def negative (cs : Coins) : Coins := cs.map (fun c => ⟨c.denom, -c.amount⟩)

/-- `Coins.SubUnsafe`. -/
def subUnsafe (a b : Coins) : Except Fail Coins := addUnsafe a (negative b)

/-- `Coins.AmountOf` (the Go code binary-searches; on a validated set that is the
first and only match). -/
def amountOf (cs : Coins) (d : Denom) : Int :=
  match cs.find? (fun c => c.denom == d) with
  | some c => c.amount
  | none => 0

/-- `Coins.IsEqual` as `ValidateInputsOutputs` uses it: both operands are results of
`Coins.Add`, hence validated (strictly sorted), so the in-place `Sort` is the
identity; lengths are compared first; a denom mismatch at equal index PANICS
(`Coin.IsEqual`), an amount mismatch returns false. -/
def isEqualAux : Coins → Coins → Except Fail Bool
  | a :: ra, b :: rb =>
    if a.denom ≠ b.denom then .error (.panic "denom-mismatch")
    else if a.amount ≠ b.amount then .ok false
    else isEqualAux ra rb
  | _, _ => .ok true

def coinsIsEqual (a b : Coins) : Except Fail Bool :=
  if a.length ≠ b.length then .ok false else isEqualAux a b

/-! ## association lists with the KV store's Get / Set / Delete -/

section AList
variable {κ ν : Type} [DecidableEq κ]

def find : List (κ × ν) → κ → Option ν
  | [], _ => none
  | (k', v) :: m, k => if k' = k then some v else find m k

/-- `some v` = Set (replace in place, or insert), `none` = Delete. -/
def upd : List (κ × ν) → κ → Option ν → List (κ × ν)
  | [], _, none => []
  | [], k, some v => [(k, v)]
  | (k', v') :: m, k, ov =>
    if k' = k then (match ov with | some v => (k, v) :: m | none => m)
    else (k', v') :: upd m k ov

end AList

/-! ## state -/

/-- which concrete account type is stored: gno.land's GnoAccount (with its
token-lock whitelist bit), a vesting account (with the coins its schedule currently
locks), or the plain BaseAccount a completed vesting account collapses to. -/
inductive Kind where
  | gno (white : Bool)
  | vesting (locked : Coins)
  | base
deriving DecidableEq, Repr

structure Account where
  addr : Addr
  num : Nat
  coins : Coins
  kind : Kind
deriving DecidableEq, Repr

structure State where
  accts : List (Addr × Account) := []
  split : List ((Addr × Denom) × Int) := []
  supply : List (Denom × Int) := []
  nextNum : Nat := 0
  restricted : List Denom := []
  unlocked : Bool := false
deriving Repr

def init : State := {}

def getAcct (s : State) (a : Addr) : Option Account := find s.accts a

/-- `AccountKeeper.SetAccount`: files the object under ITS OWN address field. -/
def setAccount (s : State) (acc : Account) : State :=
  { s with accts := upd s.accts acc.addr (some acc) }

/-- `AccountKeeper.NewAccountWithAddress`: prototype GnoAccount, next account number. -/
def newAccount (s : State) (a : Addr) : Account × State :=
  (⟨a, s.nextNum, [], .gno false⟩, { s with nextNum := s.nextNum + 1 })

/-- `BankKeeper.ensureAccount`. -/
def ensureAccount (s : State) (a : Addr) : Account × State :=
  match getAcct s a with
  | some acc => (acc, s)
  | none => let r := newAccount s a; (r.1, setAccount r.2 r.1)

/-- `getSplitBalance`. -/
def getSplit (s : State) (a : Addr) (d : Denom) : Int := (find s.split (a, d)).getD 0

/-- `setSplitBalance`: a zero deletes the key. -/
def setSplit (s : State) (a : Addr) (d : Denom) (v : Int) : State :=
  { s with split := upd s.split (a, d) (if v = 0 then none else some v) }

/-- `TotalSupply`. -/
def getSupply (s : State) (d : Denom) : Int := (find s.supply d).getD 0

/-- `setSupply`: a zero deletes the record. -/
def setSupply (s : State) (d : Denom) (v : Int) : State :=
  { s with supply := upd s.supply d (if v = 0 then none else some v) }

def writeSplits (s : State) (a : Addr) (ws : List (Denom × Int)) : State :=
  ws.foldl (fun st w => setSplit st a w.1 w.2) s

def writeSupplies (s : State) (ws : List (Denom × Int)) : State :=
  ws.foldl (fun st w => setSupply st w.1 w.2) s

/-! ## keeper internals -/

/-- `accountTierCoins`: panics if the account object holds a denom outside the tier. -/
def acctTierCoins (tier : Denom → Bool) (acc : Account) : Except Fail Coins :=
  if acc.coins.all (fun c => tier c.denom) then .ok acc.coins else .error (.panic "tier-mismatch")

/-- `ViewKeeper.GetCoin`. -/
def getCoin (tier : Denom → Bool) (s : State) (a : Addr) (d : Denom) : Except Fail Int :=
  if d.utf8ByteSize > maxDenomLength then .ok 0
  else if !tier d then .ok (getSplit s a d)
  else match getAcct s a with
    | none => .ok 0
    | some acc =>
      match acctTierCoins tier acc with
      | .error f => .error f
      | .ok cs => .ok (amountOf cs d)

/-- `upgradeVestingAccount`: a vesting account whose schedule locks nothing any more
is replaced (in memory only) by a BaseAccount. -/
def upgradeVesting (s : State) : Option Account → Option Account × Bool
  | some x =>
    match x.kind with
    | .vesting locked =>
      if s.unlocked || locked.isEmpty then (some { x with kind := .base }, true) else (some x, false)
    | _ => (some x, false)
  | none => (none, false)

/-- the per-denom vesting loop of `SubtractCoins`. -/
def vestCheck (tier : Denom → Bool) (s : State) (a : Addr) (locked : Coins) : Coins → Except Fail Unit
  | [] => .ok ()
  | c :: rest =>
    if amountOf locked c.denom = 0 then vestCheck tier s a locked rest
    else
      match getCoin tier s a c.denom with
      | .error f => .error f
      | .ok bal =>
        if max (bal - amountOf locked c.denom) 0 < c.amount then .error (.err "vesting-locked")
        else vestCheck tier s a locked rest

/-- first loop of `subtract`: new split balances, computed from the state as it is
BEFORE any write; first shortfall errors. -/
def debitSplit (s : State) (a : Addr) : Coins → Except Fail (List (Denom × Int))
  | [] => .ok []
  | c :: rest =>
    if getSplit s a c.denom < c.amount then .error (.err "insufficient")
    else match debitSplit s a rest with
      | .error f => .error f
      | .ok ws => .ok ((c.denom, getSplit s a c.denom - c.amount) :: ws)

/-- first loop of `AddCoins`: new split balances from the pre-state; overflow panics. -/
def creditSplit (s : State) (a : Addr) : Coins → Except Fail (List (Denom × Int))
  | [] => .ok []
  | c :: rest =>
    if inI64 (getSplit s a c.denom + c.amount) then
      match creditSplit s a rest with
      | .error f => .error f
      | .ok ws => .ok ((c.denom, getSplit s a c.denom + c.amount) :: ws)
    else .error (.panic "overflow")

/-- the account-tier half of `subtract`: `oldCoins.SubUnsafe(account)` must validate. -/
def debitAcct (tier : Denom → Bool) (acc : Option Account) (ac : Coins) : Except Fail (Option Coins) :=
  if ac.isEmpty then .ok none
  else
    match (match acc with | none => Except.ok [] | some x => acctTierCoins tier x) with
    | .error f => .error f
    | .ok old =>
      match subUnsafe old ac with
      | .error f => .error f
      | .ok new => if coinsValid new then .ok (some new) else .error (.err "insufficient")

/-- the account-object writes of `subtract`'s success path: first the collapsed
vesting account (if `upgraded`), then `setAccountTierCoins(ctx, acc, addr, newCoins)`
when the debit has an account-tier part. -/
def subAcctWrites (s : State) (acc : Option Account) (a : Addr) (upgraded : Bool) (aw : Option Coins) : State :=
  let s1 := if upgraded then (match acc with | some x => setAccount s x | none => s) else s
  match aw with
  | none => s1
  | some new =>
    match acc with
    | some x => setAccount s1 { x with coins := new }
    | none => let r := ensureAccount s1 a; setAccount r.2 { r.1 with coins := new }

/-- `acc != nil && acc.GetAddress() != addr`. -/
def addrMismatch (acc : Option Account) (a : Addr) : Bool :=
  match acc with
  | some x => x.addr != a
  | none => false

/-- `BankKeeper.subtract`. `acc` is the account as the caller read (and possibly
upgraded) it.  Every check precedes every write. -/
def subtractCore (tier : Denom → Bool) (s : State) (acc : Option Account) (a : Addr) (amt : Coins)
    (upgraded : Bool) : State × Option Fail :=
  if !coinsValid amt then (s, some (.err "invalid-coins-plain"))
  else if addrMismatch acc a then (s, some (.err "account-mismatch"))
  else
    match debitSplit s a (amt.filter (fun c => !tier c.denom)) with
    | .error f => (s, some f)
    | .ok debited =>
      match debitAcct tier acc (amt.filter (fun c => tier c.denom)) with
      | .error f => (s, some f)
      | .ok aw => (writeSplits (subAcctWrites s acc a upgraded aw) a debited, none)

/-- `SubtractCoins` (`vest = true`) / `subtractCoinsUnrestricted` (`vest = false`). -/
def subtractCoins (tier : Denom → Bool) (s : State) (a : Addr) (amt : Coins) (vest : Bool) :
    State × Option Fail :=
  if !coinsValid amt then (s, some (.err "invalid-coins"))
  else
    let up := upgradeVesting s (getAcct s a)
    match (match vest, up.1 with
           | true, some x => (match x.kind with
                              | .vesting locked => vestCheck tier s a locked amt
                              | _ => Except.ok ())
           | _, _ => Except.ok ()) with
    | .error f => (s, some f)
    | .ok _ => subtractCore tier s up.1 a amt up.2

/-- `AddCoins`. -/
def addCoins (tier : Denom → Bool) (s : State) (a : Addr) (amt : Coins) : State × Option Fail :=
  if !coinsValid amt then (s, some (.err "invalid-coins"))
  else
    match creditSplit s a (amt.filter (fun c => !tier c.denom)) with
    | .error f => (s, some f)
    | .ok credited =>
      let r := ensureAccount s a
      if (amt.filter (fun c => tier c.denom)).isEmpty then (writeSplits r.2 a credited, none)
      else
        match acctTierCoins tier r.1 with
        | .error f => (r.2, some f)
        | .ok old =>
          match coinsAdd old (amt.filter (fun c => tier c.denom)) with
          | .error f => (r.2, some f)
          | .ok new => (writeSplits (setAccount r.2 { r.1 with coins := new }) a credited, none)

/-- `canSendCoins`. -/
def canSend (s : State) (a : Addr) (amt : Coins) : Bool :=
  if s.restricted.isEmpty then true
  else if amt.any (fun c => s.restricted.contains c.denom && decide (0 < c.amount)) then
    match getAcct s a with
    | some x => (match x.kind with | .gno true => true | _ => false)
    | none => false
  else true

/-- `sendCoins` / `SendCoinsUnrestricted`: subtract, then add. -/
def sendCore (tier : Denom → Bool) (s : State) (f t : Addr) (amt : Coins) (vest : Bool) :
    State × Option Fail :=
  match subtractCoins tier s f amt vest with
  | (s1, some e) => (s1, some e)
  | (s1, none) => addCoins tier s1 t amt

/-- `SendCoins` (session-spend deduction is a no-op without a session context). -/
def sendCoins (tier : Denom → Bool) (s : State) (f t : Addr) (amt : Coins) : State × Option Fail :=
  if coinsIsZero amt then (s, none)
  else if !canSend s f amt then (s, some (.err "restricted"))
  else sendCore tier s f t amt true

def sendCoinsUnrestricted (tier : Denom → Bool) (s : State) (f t : Addr) (amt : Coins) :
    State × Option Fail :=
  sendCore tier s f t amt false

/-- the affordability loop of `auth.DeductFees`: one fee denom at a time, through `GetCoin`. -/
def feeCheck (tier : Denom → Bool) (s : State) (a : Addr) : Coins → Except Fail Unit
  | [] => .ok ()
  | c :: rest =>
    match getCoin tier s a c.denom with
    | .error f => .error f
    | .ok bal => if bal < c.amount then .error (.err "insufficient-funds") else feeCheck tier s a rest

/-- `auth.DeductFees` as the ante handler calls it for the first signer (who must
have an account: `GetSignerAcc`): validate the fee, check affordability, then
`SendCoinsUnrestricted` to the fee collector. -/
def deductFees (tier : Denom → Bool) (s : State) (a collector : Addr) (fees : Coins) : State × Option Fail :=
  match getAcct s a with
  | none => (s, some (.err "unknown-address"))
  | some _ =>
    if !coinsValid fees then (s, some (.err "insufficient-fee"))
    else match feeCheck tier s a fees with
      | .error f => (s, some f)
      | .ok _ => sendCoinsUnrestricted tier s a collector fees

/-- one side of `ValidateInputsOutputs`: ValidateBasic then `total = total.Add(coins)`. -/
def validateSide : List (Addr × Coins) → Coins → Except Fail Coins
  | [], tot => .ok tot
  | (_, cs) :: rest, tot =>
    if !(coinsValid cs && allPositive cs) then .error (.err "invalid-coins")
    else match coinsAdd tot cs with
      | .error f => .error f
      | .ok tot' => validateSide rest tot'

/-- `ValidateInputsOutputs`. -/
def validateIO (ins outs : List (Addr × Coins)) : Except Fail Unit :=
  match validateSide ins [] with
  | .error f => .error f
  | .ok ti =>
    match validateSide outs [] with
    | .error f => .error f
    | .ok to =>
      match coinsIsEqual ti to with
      | .error f => .error f
      | .ok true => .ok ()
      | .ok false => .error (.err "io-mismatch")

def subInputs (tier : Denom → Bool) (s : State) : List (Addr × Coins) → State × Option Fail
  | [] => (s, none)
  | (a, cs) :: rest =>
    if !canSend s a cs then (s, some (.err "restricted"))
    else match subtractCoins tier s a cs true with
      | (s1, some e) => (s1, some e)
      | (s1, none) => subInputs tier s1 rest

def addOutputs (tier : Denom → Bool) (s : State) : List (Addr × Coins) → State × Option Fail
  | [] => (s, none)
  | (a, cs) :: rest =>
    match addCoins tier s a cs with
    | (s1, some e) => (s1, some e)
    | (s1, none) => addOutputs tier s1 rest

/-- `InputOutputCoins`. -/
def inputOutput (tier : Denom → Bool) (s : State) (ins outs : List (Addr × Coins)) :
    State × Option Fail :=
  match validateIO ins outs with
  | .error f => (s, some f)
  | .ok _ =>
    match subInputs tier s ins with
    | (s1, some e) => (s1, some e)
    | (s1, none) => addOutputs tier s1 outs

/-- `nextSupply`: new supply per denom from the pre-state; out of [0, MaxInt64] errors. -/
def nextSupply (s : State) (sign : Int) : Coins → Except Fail (List (Denom × Int))
  | [] => .ok []
  | c :: rest =>
    if inI64 (getSupply s c.denom + sign * c.amount) && decide (0 ≤ getSupply s c.denom + sign * c.amount) then
      match nextSupply s sign rest with
      | .error f => .error f
      | .ok ws => .ok ((c.denom, getSupply s c.denom + sign * c.amount) :: ws)
    else .error (.err "supply-range")

/-- `MintCoins`. -/
def mintCoins (tier : Denom → Bool) (s : State) (a : Addr) (amt : Coins) : State × Option Fail :=
  if !coinsValid amt then (s, some (.err "issuance"))
  else match nextSupply s 1 amt with
    | .error f => (s, some f)
    | .ok next =>
      match addCoins tier s a amt with
      | (s1, some e) => (s1, some e)
      | (s1, none) => (writeSupplies s1 next, none)

/-- `BurnCoins`. -/
def burnCoins (tier : Denom → Bool) (s : State) (a : Addr) (amt : Coins) : State × Option Fail :=
  if !coinsValid amt then (s, some (.err "issuance"))
  else match nextSupply s (-1) amt with
    | .error f => (s, some f)
    | .ok next =>
      match subtractCoins tier s a amt true with
      | (s1, some e) => (s1, some e)
      | (s1, none) => (writeSupplies s1 next, none)

/-! ## genesis-level operations (not transactions) -/

/-- `SetCoins`: replace every balance of `a`; does NOT touch the supply records. -/
def setCoins (tier : Denom → Bool) (s : State) (a : Addr) (amt : Coins) : State × Option Fail :=
  if !coinsValid amt then (s, some (.err "invalid-coins"))
  else
    let r := ensureAccount s a
    let s2 := setAccount r.2 { r.1 with coins := amt.filter (fun c => tier c.denom) }
    let s3 := { s2 with split := s2.split.filter (fun e => e.1.1 ≠ a) }
    ((amt.filter (fun c => !tier c.denom)).foldl (fun st c => setSplit st a c.denom c.amount) s3, none)

/-- Σ of one denom over the split tier. -/
def splitTotal (s : State) (d : Denom) : Int :=
  (s.split.map (fun e => if e.1.2 = d then e.2 else 0)).sum

/-- Σ of one denom inside a Coins value (all entries of that denom). -/
def sumOf (cs : Coins) (d : Denom) : Int :=
  (cs.map (fun c => if c.denom = d then c.amount else 0)).sum

/-- Σ of one denom over all account objects. -/
def acctTotal (s : State) (d : Denom) : Int :=
  (s.accts.map (fun e => sumOf e.2.coins d)).sum

/-- Σ balances of `d` over both tiers — what `computeSupply` totals. -/
def total (s : State) (d : Denom) : Int := splitTotal s d + acctTotal s d

/-- keep one occurrence of every element (the map keys of `computeSupply`'s totals). -/
def dedup : List Denom → List Denom
  | [] => []
  | d :: ds => if d ∈ dedup ds then dedup ds else d :: dedup ds

def heldDenoms (s : State) : List Denom :=
  dedup (s.split.map (fun e => e.1.2) ++ s.accts.flatMap (fun e => e.2.coins.map (·.denom)))

/-- `RecomputeSupply`: rewrite every supply record from what is held; panics when a
per-denom total does not fit int64. -/
def recomputeSupply (s : State) : State × Option Fail :=
  if (heldDenoms s).all (fun d => decide (total s d ≤ maxInt64)) then
    ({ s with supply := ((heldDenoms s).map (fun d => (d, total s d))).filter (fun e => e.2 ≠ 0) }, none)
  else (s, some (.panic "recompute"))

/-- the bank-keeper part of InitChainer: `SetCoins` for every genesis balance, then
`RecomputeSupply` (gnoland's `seedSupply`).  An error aborts genesis. -/
def setCoinsAll (tier : Denom → Bool) (s : State) : List (Addr × Coins) → State × Option Fail
  | [] => (s, none)
  | (a, cs) :: rest =>
    match setCoins tier s a cs with
    | (s1, some e) => (s1, some e)
    | (s1, none) => setCoinsAll tier s1 rest

def genesis (tier : Denom → Bool) (bals : List (Addr × Coins)) : State × Option Fail :=
  match setCoinsAll tier init bals with
  | (s1, some e) => (s1, some e)
  | (s1, none) => recomputeSupply s1

/-! ## administrative operations used by the harness (no coins move) -/

/-- file a vesting account at `a` (same number and coins), locking `locked`. -/
def vestOp (s : State) (a : Addr) (locked : Coins) : State × Option Fail :=
  match getAcct s a with
  | some x => (setAccount s { x with kind := .vesting locked }, none)
  | none => let r := newAccount s a; (setAccount r.2 { r.1 with kind := .vesting locked }, none)

def unlockOp (s : State) : State × Option Fail := ({ s with unlocked := true }, none)

def restrictOp (s : State) (ds : List Denom) : State × Option Fail :=
  if ds.all validDenom then ({ s with restricted := ds }, none) else (s, some (.panic "bad-param"))

def whitelistOp (s : State) (a : Addr) : State × Option Fail :=
  match getAcct s a with
  | some x => (match x.kind with
               | .gno _ => (setAccount s { x with kind := .gno true }, none)
               | _ => (s, some (.err "not-gno")))
  | none => (s, some (.err "not-gno"))

/-! ## operations and steps -/

/-- the ledger operations a committed transaction is made of. -/
inductive Op where
  | send (f t : Addr) (amt : Coins)                 -- MsgSend, realm banker SendCoins, MsgCall/Run/AddPackage send
  | sendU (f t : Addr) (amt : Coins)                -- storage deposit lock / refund, fee transfer
  | fee (a collector : Addr) (fees : Coins)         -- ante handler: auth.DeductFees
  | multi (ins outs : List (Addr × Coins))          -- MsgMultiSend
  | mint (a : Addr) (amt : Coins)                   -- realm IssueCoin, genesis signer funding
  | burn (a : Addr) (amt : Coins)                   -- realm RemoveCoin
  | vest (a : Addr) (locked : Coins)                -- (re)file a vesting account / schedule progress
  | unlock                                          -- block time passes every schedule's end
  | restrict (ds : List Denom)                      -- bank param restricted_denoms
  | whitelist (a : Addr)
deriving Repr

/-- the RAW keeper step. -/
def rawStep (tier : Denom → Bool) (s : State) : Op → State × Option Fail
  | .send f t amt => sendCoins tier s f t amt
  | .sendU f t amt => sendCoinsUnrestricted tier s f t amt
  | .fee a c fees => deductFees tier s a c fees
  | .multi ins outs => inputOutput tier s ins outs
  | .mint a amt => mintCoins tier s a amt
  | .burn a amt => burnCoins tier s a amt
  | .vest a l => vestOp s a l
  | .unlock => unlockOp s
  | .restrict ds => restrictOp s ds
  | .whitelist a => whitelistOp s a

/-- the TRANSACTIONAL step: the cache store is written iff the keeper call succeeded. -/
def txStep (tier : Denom → Bool) (s : State) (op : Op) : State :=
  match rawStep tier s op with
  | (s', none) => s'
  | (_, some _) => s

def txResult (tier : Denom → Bool) (s : State) (op : Op) : Option Fail := (rawStep tier s op).2

/-- every history of committed steps. -/
def run (tier : Denom → Bool) (s : State) (ops : List Op) : State := ops.foldl (txStep tier) s

/-- a transaction carrying several ledger ops (messages): all-or-nothing. -/
def rawBatch (tier : Denom → Bool) (s : State) : List Op → State × Option Fail
  | [] => (s, none)
  | op :: rest =>
    match rawStep tier s op with
    | (s1, some e) => (s1, some e)
    | (s1, none) => rawBatch tier s1 rest

def txBatch (tier : Denom → Bool) (s : State) (ops : List Op) : State :=
  match rawBatch tier s ops with
  | (s', none) => s'
  | (_, some _) => s

end GnoVerif.C14
