/-
Model of tm2/pkg/bitarray/bit_array.go (`BitArray`) for property C48.

Hand-written, mirroring the Go code method by method (tie = correspondence,
DESIGN.md §3 C).  Core-only: this file is linked into `gvdrive_C48`.

Reading conventions
* `*BitArray` is `Option BA`; `none` is the nil pointer.
* `Bits int` is a `Nat` (NewBitArray yields nil for `bits ≤ 0`, UnmarshalJSON
  yields 0; negative `Bits` can only come from a hand-made struct and is
  outside the property's domain).  `Elems []uint64` is `List (BitVec 64)`.
* Index arguments are `Nat`: negative indices are outside the property's
  domain (boolean vectors have none).
* Go run-time panics are `Except Panic`.
* `int` overflow of `bits + 63` is not modelled (sizes ≪ 2^63).
-/
namespace GnoVerif.C48

abbrev Word := BitVec 64
abbrev Byte := BitVec 8

inductive Panic where
  | nilDeref   -- nil pointer dereference
  | index      -- index out of range
  | slice      -- slice bounds out of range
deriving Repr, DecidableEq

structure BA where
  bits : Nat
  elems : List Word
deriving Repr, DecidableEq

abbrev BitArray := Option BA

/-- `func numElements(bits int) int { return (bits + 63) / 64 }` -/
def numElements (bits : Nat) : Nat := (bits + 63) / 64

/-- `NewBitArray`: nil for `bits <= 0`, else `make([]uint64, numElements(bits))`. -/
def newBitArray (bits : Int) : BitArray :=
  if bits ≤ 0 then none
  else some ⟨bits.toNat, List.replicate (numElements bits.toNat) 0⟩

/-- `Size` -/
def size : BitArray → Nat
  | none => 0
  | some b => b.bits

/-- `e&(uint64(1)<<uint(k)) > 0` -/
def wordBit (e : Word) (k : Nat) : Bool :=
  decide ((e &&& ((1 : Word) <<< k)) > 0)

/-- `getIndex`: `if i >= bA.Bits || i/64 >= len(bA.Elems) { return false }` -/
def BA.getIndex (b : BA) (i : Nat) : Bool :=
  if i ≥ b.bits ∨ i / 64 ≥ b.elems.length then false
  else wordBit (b.elems.getD (i / 64) 0) (i % 64)

/-- `GetIndex` (nil-safe). -/
def getIndex : BitArray → Nat → Bool
  | none, _ => false
  | some b, i => b.getIndex i

/-- `setIndex`: same guard; `|= 1<<(i%64)` or `&= ^(1<<(i%64))`. -/
def BA.setIndex (b : BA) (i : Nat) (v : Bool) : BA × Bool :=
  if i ≥ b.bits ∨ i / 64 ≥ b.elems.length then (b, false)
  else
    let e := b.elems.getD (i / 64) 0
    let m : Word := (1 : Word) <<< (i % 64)
    (⟨b.bits, b.elems.set (i / 64) (if v then e ||| m else e &&& ~~~m)⟩, true)

/-- `SetIndex` (nil-safe; the array is mutated in place). -/
def setIndex : BitArray → Nat → Bool → BitArray × Bool
  | none, _, _ => (none, false)
  | some b, i, v => let r := b.setIndex i v; (some r.1, r.2)

/-- Go's builtin `copy(dst, src)`: overwrites the first `min(len dst, len src)`
elements of `dst`. -/
def goCopy {α : Type} (dst src : List α) : List α :=
  src.take dst.length ++ dst.drop src.length

/-- `copy()` (lower-case: the unlocked worker). -/
def BA.copy (b : BA) : BA := ⟨b.bits, goCopy (List.replicate b.elems.length 0) b.elems⟩

/-- `Copy` -/
def copy : BitArray → BitArray
  | none => none
  | some b => some b.copy

/-- `copyBits(bits)`: `c := make([]uint64, numElements(bits)); copy(c, bA.Elems)` -/
def BA.copyBits (b : BA) (bits : Nat) : BA :=
  ⟨bits, goCopy (List.replicate (numElements bits) 0) b.elems⟩

/-- The loop `for i := range n { c[i] = f(c[i], o[i]) }` with Go's bounds checks
on both slices. -/
def mapPrefix (f : Word → Word → Word) : Nat → List Word → List Word → Except Panic (List Word)
  | 0, c, _ => .ok c
  | _ + 1, [], _ => .error .index
  | _ + 1, _ :: _, [] => .error .index
  | n + 1, x :: c, y :: o => (f x y :: ·) <$> mapPrefix f n c o

/-- `Or`: nil rules, then `copyBits(max)` and `c.Elems[i] |= o.Elems[i]` for
`i < min(len(c.Elems), len(o.Elems))` (since the fix: `c`, not `bA`). -/
def or : BitArray → BitArray → Except Panic BitArray
  | none, none => .ok none
  | none, some o => .ok (some o.copy)
  | some a, none => .ok (some a.copy)
  | some a, some o =>
    let c := a.copyBits (max a.bits o.bits)
    let smaller := min c.elems.length o.elems.length
    (fun es => some ⟨c.bits, es⟩) <$> mapPrefix (· ||| ·) smaller c.elems o.elems

/-- `And`: nil if either is nil; `copyBits(min)`; `for i := range c.Elems { c.Elems[i] &= o.Elems[i] }`. -/
def and : BitArray → BitArray → Except Panic BitArray
  | none, _ => .ok none
  | _, none => .ok none
  | some a, some o =>
    let c := a.copyBits (min a.bits o.bits)
    (fun es => some ⟨c.bits, es⟩) <$> mapPrefix (· &&& ·) c.elems.length c.elems o.elems

/-- `if rem := bits % 64; rem != 0 && len(es) > 0 { es[len-1] &= (1<<rem) - 1 }`
(the padding mask that `not()` and `Update` apply since their fixes). -/
def maskLast (bits : Nat) (es : List Word) : List Word :=
  let rem := bits % 64
  if rem ≠ 0 ∧ es.length > 0 then
    es.set (es.length - 1) (es.getD (es.length - 1) 0 &&& (((1 : Word) <<< rem) - 1))
  else es

/-- `not()`: complement every word of a copy, then mask the last word. -/
def BA.not (b : BA) : BA :=
  let c := b.copy
  ⟨c.bits, maskLast c.bits (c.elems.map (~~~ ·))⟩

/-- `Not` -/
def not : BitArray → BitArray
  | none => none
  | some b => some b.not

/-- `Sub`: nil if either is nil; `copyBits(bA.Bits)`; `c.Elems[i] &^= o.Elems[i]`
for `i < min(len(bA.Elems), len(o.Elems))`. -/
def sub : BitArray → BitArray → Except Panic BitArray
  | none, _ => .ok none
  | _, none => .ok none
  | some a, some o =>
    let c := a.copyBits a.bits
    let smaller := min a.elems.length o.elems.length
    (fun es => some ⟨c.bits, es⟩) <$> mapPrefix (fun x y => x &&& ~~~y) smaller c.elems o.elems

/-- `IsEmpty`: `for _, e := range bA.Elems { if e > 0 { return false } }; return true` -/
def isEmpty : BitArray → Bool
  | none => true
  | some b => b.elems.all (fun e => !decide (e > 0))

/-- `IsFull`: all words but the last are `^elem == 0`; the last one satisfies
`(lastElem+1) & ((1<<lastElemBits)-1) == 0` with `lastElemBits = (Bits+63)%64 + 1`. -/
def isFull : BitArray → Bool
  | none => true
  | some b =>
    if b.elems.length = 0 then true
    else
      let lastElemBits := (b.bits + 63) % 64 + 1
      let lastElem := b.elems.getD (b.elems.length - 1) 0
      b.elems.dropLast.all (fun e => decide (~~~e = 0)) &&
        decide ((lastElem + 1) &&& (((1 : Word) <<< lastElemBits) - 1) = 0)

/-- `for j := range n { if elem&(1<<j) > 0 { append(curBit) }; curBit++ }` -/
def wordTrue (e : Word) (cur n : Nat) : List Nat :=
  ((List.range n).filter (fun j => wordBit e j)).map (cur + ·)

/-- The two loops of `getTrueIndices` (all words but the last; then the last
with `numFinalBits = Bits - curBit`). -/
def trueIdxLoop : List Word → Nat → Nat → List Nat
  | [], _, _ => []
  | [last], cur, bits => wordTrue last cur (bits - cur)
  | e :: e' :: rest, cur, bits =>
    (if e = 0 then [] else wordTrue e cur 64) ++ trueIdxLoop (e' :: rest) (cur + 64) bits

/-- `getTrueIndices` (nil receiver: `PickRandom`'s guard, no indices). -/
def trueIndices : BitArray → List Nat
  | none => []
  | some b =>
    if b.elems.length ≠ numElements b.bits then []
    else trueIdxLoop b.elems 0 b.bits

/-- `binary.LittleEndian.PutUint64` -/
def le8 (e : Word) : List Byte :=
  (List.range 8).map (fun k => (e >>> (8 * k)).setWidth 8)

/-- `Bytes`: nil for nil (since the fix).
`copy(bytes[i*8:], elemBytes[:])` for every word panics when `i*8 > numBytes`;
otherwise the copies amount to one truncating copy of the concatenation. -/
def bytes : BitArray → Except Panic (List Byte)
  | none => .ok []
  | some b =>
    let numBytes := (b.bits + 7) / 8
    if b.elems.length ≥ 1 ∧ (b.elems.length - 1) * 8 > numBytes then .error .slice
    else .ok (goCopy (List.replicate numBytes 0) (b.elems.flatMap le8))

/-- `Update`: `copy(bA.Elems, o.Elems)` unless either is nil, then (since the
fix) the padding mask on bA's last word. -/
def update : BitArray → BitArray → BitArray
  | none, _ => none
  | some a, none => some a
  | some a, some o => some ⟨a.bits, maskLast a.bits (goCopy a.elems o.elems)⟩

def cQuote : Byte := 0x22
def cX : Byte := 0x78
def cUnderscore : Byte := 0x5f
def nullBytes : List Byte := [0x6e, 0x75, 0x6c, 0x6c]

/-- the `x`/`_` characters of `MarshalJSON` / `String` -/
def bitChars (n : Nat) (get : Nat → Bool) : List Byte :=
  (List.range n).map (fun i => if get i then cX else cUnderscore)

/-- `MarshalJSON`: `null` for nil, else `"` + one of `x` `_` per bit + `"`. -/
def marshalJSON : BitArray → List Byte
  | none => nullBytes
  | some b => cQuote :: (bitChars b.bits b.getIndex ++ [cQuote])

/-- `\A"([_x]*)"\z` as `FindStringSubmatch` uses it: the captured group, or none. -/
def matchBitString (bz : List Byte) : Option (List Byte) :=
  match bz with
  | [] => none
  | q :: rest =>
    if q ≠ cQuote then none
    else if rest.length = 0 then none
    else if rest.getLast? ≠ some cQuote then none
    else
      let mid := rest.dropLast
      if mid.all (fun c => c = cX || c = cUnderscore) then some mid else none

/-- `for i := range numBits { if bits[i] == 'x' { bA2.SetIndex(i, true) } }` -/
def fillFrom (chars : List Byte) (b : BA) : BA :=
  (List.range chars.length).foldl
    (fun b i => if chars.getD i 0 = cX then (b.setIndex i true).1 else b) b

/-- `UnmarshalJSON` on a non-nil receiver: the receiver's fields are replaced
wholesale, so the result does not depend on it; `none` = error returned
(receiver untouched). `null` and `""` both give `Bits = 0, Elems = nil`. -/
def unmarshalJSON (bz : List Byte) : Option BA :=
  if bz = nullBytes then some ⟨0, []⟩
  else match matchBitString bz with
    | none => none
    | some chars =>
      match newBitArray chars.length with
      | none => some ⟨0, []⟩
      | some b2 => some (fillFrom chars b2)

/-- `String()` = `StringIndented("")`: with an empty indent the line splitting
is invisible: `BA{<bits>:<x/_ chars>}`; `nil-BitArray` for nil. -/
def toStr : BitArray → String
  | none => "nil-BitArray"
  | some b =>
    "BA{" ++ toString b.bits ++ ":" ++
      String.ofList ((List.range b.bits).map (fun i => if b.getIndex i then 'x' else '_')) ++ "}"

/-- `ValidateBasic`: `numElements(Bits) == len(Elems)` (nil is valid). -/
def validateBasic : BitArray → Bool
  | none => true
  | some b => numElements b.bits = b.elems.length

end GnoVerif.C48
