import GnoVerif.Gen.C41
/-!
Model of the state store, tm2/pkg/bft/state/store.go: `saveState`, `saveValidatorsInfo`,
`saveConsensusParamsInfo`, `LoadValidators`, `lastStoredHeightFor`, `LoadConsensusParams`,
`LoadState`, over a key-value model with one association list per key family
(`validatorsKey:%x`, `consensusParamsKey:%x`, `stateKey`).  Core-only, executable.

* Go `int64` heights are `Int`; `%` is Go's truncated remainder (`Int.tmod`).
* The validator set is an abstract type `VS`; `IncrementProposerPriority(1)` is the parameter
  `inc1 : VS → Except String VS` (the error is the canonical panic token).  The priority
  arithmetic itself is C37's subject; the driver instantiates `inc1` with C37's model.
* memdb keeps an empty value as such and the loaders treat `len(buf) == 0` as "not found":
  an info record whose amino encoding is empty (no set / empty params and `LastHeightChanged = 0`)
  is indistinguishable from an absent one (`ValInfo.encEmpty`, `ParamsInfo.encEmpty`).
* `valSetCheckpointInterval` is regenerated from the source on every run (`Gen/C41.lean`).
-/
namespace GnoVerif.C41

open GnoVerif.Gen.C41 (valSetCheckpointInterval)

/-! ### association lists (newest binding first; `db.Set` = cons, `db.Get` = first match) -/

def get {κ ν : Type} [DecidableEq κ] : List (κ × ν) → κ → Option ν
  | [], _ => none
  | (k', v) :: l, k => if k' = k then some v else get l k

def set {κ ν : Type} (l : List (κ × ν)) (k : κ) (v : ν) : List (κ × ν) := (k, v) :: l

/-! ### records -/

/-- `abci.BlockParams` -/
structure BlockParams where
  maxTxBytes : Int
  maxDataBytes : Int
  maxBlockBytes : Int
  maxGas : Int
  timeIotaMS : Int
deriving DecidableEq, Repr

/-- `abci.ConsensusParams{Block *BlockParams; Validator *ValidatorParams}`;
`Validator.PubKeyTypeURLs` as a list of strings (nil and empty slice are the same after amino). -/
structure Params where
  block : Option BlockParams
  validator : Option (List String)
deriving DecidableEq, Repr

def Params.empty : Params := ⟨none, none⟩

/-- `amino.DeepEqual(abci.ConsensusParams{}, p)` -/
def Params.isEmpty (p : Params) : Bool := p.block.isNone && p.validator.isNone

/-- `ValidatorsInfo{ValidatorSet *ValidatorSet; LastHeightChanged int64}` -/
structure ValInfo (VS : Type) where
  set : Option VS
  lhc : Int

/-- the amino encoding is empty: such a record reads back as "not found" -/
def ValInfo.encEmpty {VS : Type} (i : ValInfo VS) : Bool := i.set.isNone && decide (i.lhc = 0)

/-- `ConsensusParamsInfo{ConsensusParams; LastHeightChanged}` -/
structure ParamsInfo where
  params : Params
  lhc : Int
deriving DecidableEq, Repr

def ParamsInfo.encEmpty (i : ParamsInfo) : Bool := i.params.isEmpty && decide (i.lhc = 0)

/-- the fields of `state.State` that the store reads, plus what `LoadState` must give back -/
structure St (VS : Type) where
  lbh : Int                -- LastBlockHeight
  ih : Int                 -- InitialHeight
  vals : Option VS         -- Validators
  nvals : Option VS        -- NextValidators
  lhvc : Int               -- LastHeightValidatorsChanged
  params : Params          -- ConsensusParams
  lhpc : Int               -- LastHeightConsensusParamsChanged

/-- the state database -/
structure DB (VS : Type) where
  vals : List (Int × ValInfo VS)
  params : List (Int × ParamsInfo)
  state : Option (St VS)

def DB.empty {VS : Type} : DB VS := ⟨[], [], none⟩

/-! ### save side -/

/-- `saveValidatorsInfo(db, height, lastHeightChanged, valSet)`; `none` = the panic
"LastHeightChanged cannot be greater than ValidatorsInfo height" (nothing written). -/
def saveValidatorsInfo {VS : Type} (db : DB VS) (height lhc : Int) (vs : Option VS) : Option (DB VS) :=
  if lhc > height then none
  else
    let keep := height = lhc ∨ Int.tmod height valSetCheckpointInterval = 0
    some { db with vals := set db.vals height ⟨if keep then vs else none, lhc⟩ }

/-- `saveConsensusParamsInfo(db, nextHeight, changeHeight, params)` -/
def saveConsensusParamsInfo {VS : Type} (db : DB VS) (nextHeight changeHeight : Int) (p : Params) : DB VS :=
  { db with params := set db.params nextHeight ⟨if changeHeight = nextHeight then p else Params.empty, changeHeight⟩ }

inductive SaveRes
  | ok
  | panicInvalidHeight     -- "saveState: nextHeight %d in invalid range"
  | panicLhcGtHeight       -- "LastHeightChanged cannot be greater than ValidatorsInfo height"
deriving DecidableEq, Repr

/-- `saveState(db, state, stateKey)`.  A panic leaves the writes done before it in place. -/
def saveState {VS : Type} (db : DB VS) (st : St VS) : DB VS × SaveRes :=
  let next := st.lbh + 1
  if next > 1 ∧ next < st.ih then (db, .panicInvalidHeight)
  else
    let r1 : Option (DB VS) :=
      if next = st.ih then
        match saveValidatorsInfo db next next st.vals with
        | none => none      -- unreachable: next ≤ next
        | some d => some (saveConsensusParamsInfo d next next st.params)
      else some (saveConsensusParamsInfo db next st.lhpc st.params)
    match r1 with
    | none => (db, .panicLhcGtHeight)
    | some d1 =>
      match saveValidatorsInfo d1 (next + 1) st.lhvc st.nvals with
      | none => (d1, .panicLhcGtHeight)
      | some d2 => ({ d2 with state := some st }, .ok)

/-! ### load side -/

/-- `loadValidatorsInfo`: nil when the key is absent or its value is empty -/
def loadValidatorsInfo {VS : Type} (db : DB VS) (h : Int) : Option (ValInfo VS) :=
  match get db.vals h with
  | none => none
  | some i => if i.encEmpty then none else some i

/-- `lastStoredHeightFor` -/
def lastStoredHeightFor (height lhc : Int) : Int :=
  let checkpoint := height - Int.tmod height valSetCheckpointInterval
  if checkpoint ≥ lhc then checkpoint else lhc

/-- `for i := int64(0); i < n; i++ { vs.IncrementProposerPriority(1) }` -/
def incLoop {VS : Type} (inc1 : VS → Except String VS) : Nat → VS → Except String VS
  | 0, s => .ok s
  | k + 1, s =>
    match inc1 s with
    | .ok s' => incLoop inc1 k s'
    | .error e => .error e

inductive LoadV (VS : Type)
  | ok (s : VS)
  | errNoValSet                 -- NoValSetForHeightError
  | panicNotFound               -- "Couldn't find validators at height …"
  | panicInc (tok : String)     -- a panic inside IncrementProposerPriority

/-- the stored set to replay from: `(set, lastStoredHeight)`, or `none` for the panic -/
def replayBase {VS : Type} (db : DB VS) (h : Int) (lhc : Int) : Option (VS × Int) :=
  let ls := lastStoredHeightFor h lhc
  match (loadValidatorsInfo db ls).bind (·.set) with
  | some s => some (s, ls)
  | none =>
    match (loadValidatorsInfo db lhc).bind (·.set) with
    | some s => some (s, lhc)
    | none => none

/-- `LoadValidators(db, height)` -/
def loadValidators {VS : Type} (inc1 : VS → Except String VS) (db : DB VS) (h : Int) : LoadV VS :=
  match loadValidatorsInfo db h with
  | none => .errNoValSet
  | some i =>
    match i.set with
    | some s => .ok s
    | none =>
      match replayBase db h i.lhc with
      | none => .panicNotFound
      | some (s, ls) =>
        match incLoop inc1 (h - ls).toNat s with
        | .ok s' => .ok s'
        | .error e => .panicInc e

def loadConsensusParamsInfo {VS : Type} (db : DB VS) (h : Int) : Option ParamsInfo :=
  match get db.params h with
  | none => none
  | some i => if i.encEmpty then none else some i

inductive LoadP
  | ok (p : Params)
  | errNoParams                 -- NoConsensusParamsForHeightError
  | panicNotFound               -- "Couldn't find consensus params at height …"
deriving DecidableEq, Repr

/-- `LoadConsensusParams(db, height)` -/
def loadConsensusParams {VS : Type} (db : DB VS) (h : Int) : LoadP :=
  match loadConsensusParamsInfo db h with
  | none => .errNoParams
  | some i =>
    if i.params.isEmpty then
      match loadConsensusParamsInfo db i.lhc with
      | none => .panicNotFound
      | some i2 => .ok i2.params
    else .ok i.params

/-- `LoadState(db)` (the zero `State` when nothing is stored is `none` here) -/
def loadState {VS : Type} (db : DB VS) : Option (St VS) := db.state

end GnoVerif.C41
