import GnoVerif.Model.C10Gas
/-
Model of `BaseApp.runTx` (tm2/pkg/sdk/baseapp.go) together with the pieces of
BeginBlock / CheckTx / DeliverTx / Simulate / Commit that decide which store a
transaction writes to and which gas meter it is charged on.  Shared by C02
(atomicity) and C10 (gas accounting).

What is abstract:
* A store is a *write log* (`List (Key × Option Val)`, most recent first); `get`
  is "the most recent entry for the key".  A cache-wrapped multistore over a
  parent is the list of its own writes; `MultiWrite` prepends them onto the
  parent; `Checkpoint` snapshots the list; `WriteCheckpoint` flushes the
  snapshot only (tm2/pkg/store/cache/store.go: `Checkpoint`, `WriteCheckpoint`,
  `writeLocked`).  The several sub-stores of the multistore are one key space
  (the store name is part of the key).
* A transaction is a *script*: what the ante handler and every message handler
  do, step by step (write / delete / consume gas / refund gas / require a key to
  have a value / fail / panic / panic with OutOfGasError).  The harness
  installs a scripted ante handler and a scripted message handler that interpret
  the same script on a real `sdk.BaseApp`.
* A Go panic is a value `Pan` (`oog` for `store.OutOfGasError`, `other` for
  anything else — the two branches of runTx's `recover`); a deferred function
  that panics replaces the panic in flight, as in Go.

What is mirrored literally: the order of the statements of `runTx`, its three
`defer`s in LIFO order, the variable capture of `ctx`/`gasWanted`/`result`, the
early exits, the explicit `consumeBlockGas()` on the success path, and the
gas-meter arithmetic of `Model/C10Gas.lean`.
-/
namespace GnoVerif.C02
open GnoVerif.C10

abbrev Key := String
abbrev Val := String

/-- write log, most recent first; `none` = deleted -/
abbrev Store := List (Key × Option Val)

def Store.get (s : Store) (k : Key) : Option Val :=
  match s with
  | [] => none
  | (k', v) :: rest => if k' = k then v else Store.get rest k

/-! ## scripts -/

inductive Step
  | write (k : Key) (v : Val)
  | del (k : Key)
  | consume (n : Int)
  | refund (n : Int)
  | require (k : Key) (v : Option Val)   -- fail (return an error) unless `get k = v`
  | fail                                 -- return an error result
  | panic                                -- panic("scripted")
  | oogPanic                             -- panic(store.OutOfGasError{})
  | zeroCtx                              -- ante only: return a zero Context with abort=true
  | abortNoErr                           -- ante only: abort=true with a nil error
  deriving Repr, Inhabited

inductive Pan | oog | other
  deriving DecidableEq, Repr, Inhabited

def toPan : GasPanic → Pan
  | .oog => .oog
  | _ => .other

inductive StepOut
  | ok | err | pan (p : Pan) | zero | noerr
  deriving DecidableEq, Repr, Inhabited

/-- what a handler sees and mutates: the tx cache (`msCache`) over its parent,
the context's gas meter, and the tx-scoped side cache created by `beginTxHook`
(the analogue of the gno transaction store). -/
structure Env where
  cache : Store
  parent : Store
  meter : Meter
  side : Store
  deriving Repr, Inhabited

def Env.get (e : Env) (k : Key) : Option Val := Store.get (e.cache ++ e.parent) k

/-- run a step list; `mirror` = writes are also recorded in the side cache
(message handlers only).  State changes made before a failure stay in `Env`
(the meter really is charged; the cache is rolled back by the CALLER). -/
def runSteps (mirror : Bool) : List Step → Env → Env × StepOut
  | [], e => (e, .ok)
  | .write k v :: rest, e =>
    runSteps mirror rest { e with cache := (k, some v) :: e.cache,
                                  side := if mirror then (k, some v) :: e.side else e.side }
  | .del k :: rest, e =>
    runSteps mirror rest { e with cache := (k, none) :: e.cache,
                                  side := if mirror then (k, none) :: e.side else e.side }
  | .consume n :: rest, e =>
    match (e.meter.consume n).2 with
    | none => runSteps mirror rest { e with meter := (e.meter.consume n).1 }
    | some g => ({ e with meter := (e.meter.consume n).1 }, .pan (toPan g))
  | .refund n :: rest, e =>
    match (e.meter.refund n).2 with
    | none => runSteps mirror rest { e with meter := (e.meter.refund n).1 }
    | some g => ({ e with meter := (e.meter.refund n).1 }, .pan (toPan g))
  | .require k v :: rest, e =>
    if e.get k = v then runSteps mirror rest e else (e, .err)
  | .fail :: _, e => (e, .err)
  | .panic :: _, e => (e, .pan .other)
  | .oogPanic :: _, e => (e, .pan .oog)
  | .zeroCtx :: _, e => (e, .zero)
  | .abortNoErr :: _, e => (e, .noerr)

/-- the store effects of a step list (what it writes when every step runs) -/
def writesOf : List Step → Store
  | [] => []
  | .write k v :: rest => writesOf rest ++ [(k, some v)]
  | .del k :: rest => writesOf rest ++ [(k, none)]
  | _ :: rest => writesOf rest

/-- which gas meter the scripted ante handler installs -/
inductive MeterKind
  | basic     -- ctx.WithGasMeter(store.NewGasMeter(gasWanted))              (production: auth.SetGasMeter)
  | pass      -- ctx.WithGasMeter(store.NewPassthroughGasMeter(ctx.GasMeter(), gasWanted))  (baseapp_test.go)
  | inf       -- ctx.WithGasMeter(store.NewInfiniteGasMeter())               (auth.SetGasMeter at height 0)
  | keep      -- keeps the incoming meter
  deriving DecidableEq, Repr, Inhabited

structure Ante where
  kind : MeterKind
  recovers : Bool          -- recovers OutOfGasError from its own steps and aborts (auth ante's defer)
  pre : List Step          -- run on the incoming context, before the meter is installed
  steps : List Step        -- run on the new context
  deriving Repr, Inhabited

structure Msg where
  valid : Bool             -- ValidateBasic() == nil
  routable : Bool          -- router knows the route
  steps : List Step
  deriving Repr, Inhabited

structure Tx where
  decodable : Bool         -- amino.Unmarshal(txBytes,&tx) succeeds
  gasWanted : Int
  ante : Ante
  msgs : List Msg
  deriving Repr, Inhabited

inductive Mode | deliver | check | simulate
  deriving DecidableEq, Repr, Inhabited

/-- error classes of `Result.Error` (ok = nil) -/
inductive Res
  | ok | oog | internal | txdecode | unknownrequest | basic | ante | msg
  deriving DecidableEq, Repr, Inhabited

inductive Hook | none | ok | fail     -- endTxHook not called / called with an OK result / with a failed result
  deriving DecidableEq, Repr, Inhabited

/-! ## the scripted ante handler (harness/runtxkit: `anteHandler`) -/

inductive AnteOut
  | done
  | abort (oog : Bool)
  | pan (p : Pan)
  deriving DecidableEq, Repr, Inhabited

structure AnteRes where
  cache : Store        -- msCache after the ante
  cur : Meter          -- newCtx.GasMeter()
  incoming : Meter     -- the meter of the ctx that runTx passed in, as left by the ante
  out : AnteOut
  deriving Repr, Inhabited

/-- `zero`/`noerr` make runTx panic right after the ante handler returns
("newCtx must not be zero", "result.Error should be set for abort"). -/
def anteOutOf (recovers : Bool) : StepOut → AnteOut
  | .ok => .done
  | .err => .abort false
  | .pan .oog => if recovers then .abort true else .pan .oog
  | .pan .other => .pan .other
  | .zero => .pan .other
  | .noerr => .pan .other

/-- the meter the ante installs on its new context -/
def installMeter (kind : MeterKind) (gasWanted : Int) (incoming : Meter) : Except GasPanic Meter :=
  match kind with
  | .basic => (Basic.new gasWanted).map Meter.basic
  | .pass => (Basic.new gasWanted).map (Meter.pass incoming)
  | .inf => .ok (.infinite 0)
  | .keep => .ok incoming

/-- the incoming meter as seen after the ante ran on the installed meter `cur'`
(`pre` = the incoming meter when the new one was installed) -/
def anteIncoming (kind : MeterKind) (pre : Meter) (cur' : Meter) : Meter :=
  match kind with
  | .basic => pre
  | .inf => pre
  | .pass => cur'.baseOf
  | .keep => cur'

/-- the ante after it installed `cur` on the environment `e1` left by the pre-steps -/
def anteAfterInstall (a : Ante) (e1 : Env) (cur : Meter) : AnteRes :=
  { cache := (runSteps false a.steps { e1 with meter := cur }).1.cache,
    cur := (runSteps false a.steps { e1 with meter := cur }).1.meter,
    incoming := anteIncoming a.kind e1.meter (runSteps false a.steps { e1 with meter := cur }).1.meter,
    out := anteOutOf a.recovers (runSteps false a.steps { e1 with meter := cur }).2 }

/-- the environment the ante starts in: an empty tx cache over the parent -/
def anteEnv (parent : Store) (incoming : Meter) : Env :=
  { cache := [], parent := parent, meter := incoming, side := [] }

def runAnte (a : Ante) (gasWanted : Int) (parent : Store) (incoming : Meter) : AnteRes :=
  match (runSteps false a.pre (anteEnv parent incoming)).2 with
  | .ok =>
    match installMeter a.kind gasWanted (runSteps false a.pre (anteEnv parent incoming)).1.meter with
    | .error _ =>
      -- NewGasMeter(negative) panics inside the ante, before its recover is installed
      { cache := (runSteps false a.pre (anteEnv parent incoming)).1.cache,
        cur := (runSteps false a.pre (anteEnv parent incoming)).1.meter,
        incoming := (runSteps false a.pre (anteEnv parent incoming)).1.meter, out := .pan .other }
    | .ok cur => anteAfterInstall a (runSteps false a.pre (anteEnv parent incoming)).1 cur
  | o =>
    -- the pre-steps run before the ante's own recover is installed
    { cache := (runSteps false a.pre (anteEnv parent incoming)).1.cache,
      cur := (runSteps false a.pre (anteEnv parent incoming)).1.meter,
      incoming := (runSteps false a.pre (anteEnv parent incoming)).1.meter, out := anteOutOf false o }

/-! ## runMsgs -/

structure MsgsRes where
  env : Env
  res : Res              -- result.Error class when no panic
  pan : Option Pan
  ran : Nat              -- handler.Process invocations
  deriving Repr, Inhabited

/-- `runMsgs` for mode ≠ Check: route lookup first, then the handler; stop at the
first failing message; a handler panic propagates. -/
def runMsgs : List Msg → Env → Nat → MsgsRes
  | [], e, n => { env := e, res := .ok, pan := none, ran := n }
  | m :: rest, e, n =>
    if !m.routable then { env := e, res := .unknownrequest, pan := none, ran := n }
    else
      let r := runSteps true m.steps e
      match r.2 with
      | .ok => runMsgs rest r.1 (n + 1)
      | .pan p => { env := r.1, res := .ok, pan := some p, ran := n + 1 }
      | _ => { env := r.1, res := .msg, pan := none, ran := n + 1 }   -- err (zero/noerr are rejected by the parser)

/-! ## runTx -/

/-- the local variables of `runTx` that its closures capture, plus the pieces of
app state it mutates -/
structure Frame where
  mode : Mode
  parent : Store           -- what ctx.MultiStore() writes through to (deliverState.ms / checkState.ms / a throw-away copy)
  block : Meter            -- ctx.BlockGasMeter()
  startingGas : Int
  cur : Meter              -- ctx.GasMeter()  (ctx is reassigned to the ante's newCtx)
  incoming : Meter         -- the meter of the ctx runTx started with (after the passthrough wrap)
  gasWanted : Int
  cache : Store            -- msCache
  cp : Option Store        -- active checkpoint of msCache
  cpDefer : Bool           -- the WriteCheckpoint defer has been registered
  blockGasConsumed : Bool
  result : Res
  pan : Option Pan         -- panic in flight
  hook : Hook
  vm : Store               -- the persistent side cache (committed by endTxHook on OK)
  anteRan : Bool
  anteDone : Bool          -- the ante handler returned without abort
  msgsRan : Nat
  deriving Repr, Inhabited

/-- the closure `consumeBlockGas` -/
def consumeBlockGas (f : Frame) : Frame :=
  if f.mode = .deliver ∧ f.blockGasConsumed = false then
    match (f.block.consume f.cur.consumedToLimit).2 with
    | some g => { f with blockGasConsumed := true, block := (f.block.consume f.cur.consumedToLimit).1,
                         pan := some (toPan g) }
    | none =>
      if (f.block.consume f.cur.consumedToLimit).1.gasConsumed < f.startingGas then
        -- panic(ErrGasOverflow("tx gas summation"))
        { f with blockGasConsumed := true, block := (f.block.consume f.cur.consumedToLimit).1, pan := some .other }
      else
        { f with blockGasConsumed := true, block := (f.block.consume f.cur.consumedToLimit).1 }
  else f

/-- amino.Unmarshal and validateBasicTxMsgs: `some r` = runTx returns with that error -/
def preAnte (tx : Tx) : Option Res :=
  if !tx.decodable then some .txdecode
  else if tx.msgs.isEmpty then some .unknownrequest
  else if tx.msgs.any (fun m => !m.valid) then some .basic
  else none

/-- DeliverTx, after runMsgs returned without a panic (`f.result` is its result;
`side` is the tx-scoped side cache):

    if result.IsOK() { consumeBlockGas() }
    endTxHook(runMsgCtx, result)
    if result.IsOK() { msCache.MultiWrite() } else { cp.WriteCheckpoint() }
-/
def finishDeliver (f : Frame) (side : Store) : Frame :=
  let f := if f.result = .ok then consumeBlockGas f else f
  match f.pan with
  | some _ => f
  | none =>
    if f.result = .ok then
      { f with hook := .ok, vm := side ++ f.vm, parent := f.cache ++ f.parent, cache := [], cp := none }
    else
      { f with hook := .fail, parent := (f.cp.getD []) ++ f.parent, cache := [], cp := none }

/-- the same place BEFORE the fix f77314a29b: endTxHook and MultiWrite first, the
block gas meter is charged only by the deferred `consumeBlockGas` -/
def finishDeliverOld (f : Frame) (side : Store) : Frame :=
  if f.result = .ok then
    { f with hook := .ok, vm := side ++ f.vm, parent := f.cache ++ f.parent, cache := [], cp := none }
  else
    { f with hook := .fail, parent := (f.cp.getD []) ++ f.parent, cache := [], cp := none }

/-- the environment the message handlers start in: the tx cache (holding the
ante writes) over the parent, the ante's gas meter, and the fresh side cache made
by `beginTxHook` -/
def msgsEnv (f : Frame) : Env := { cache := f.cache, parent := f.parent, meter := f.cur, side := [] }

/-- `cp.Checkpoint()`, `defer WriteCheckpoint`, then what `runMsgs` did to the
context: the frame when `runMsgs` returns or panics -/
def msgsFrame (tx : Tx) (f : Frame) (r : MsgsRes) : Frame :=
  { f with cp := some f.cache, cpDefer := true,
           cache := r.env.cache, cur := r.env.meter, msgsRan := r.ran,
           incoming := (match tx.ante.kind with
             | .pass => r.env.meter.baseOf
             | .keep => r.env.meter
             | _ => f.incoming) }

/-- runTx from the return of `runMsgs` on -/
def afterMsgs (fin : Frame → Store → Frame) (f : Frame) (r : MsgsRes) : Frame :=
  match r.pan with
  | some p => { f with pan := some p }
  | none =>
    if f.mode = .deliver then fin { f with result := r.res } r.env.side
    else { f with result := r.res }          -- Simulate: return result

/-- runTx after the ante handler returned without abort (`f` already carries the
ante's context: `cur`, `incoming`, `gasWanted`, `cache`) -/
def afterAnte (fin : Frame → Store → Frame) (tx : Tx) (f : Frame) : Frame :=
  match f.mode with
  | .check =>
    -- msCache.MultiWrite(); return result   (the outer, still zero, result)
    { f with parent := f.cache ++ f.parent, cache := [] }
  | _ =>
    afterMsgs fin (msgsFrame tx f (runMsgs tx.msgs (msgsEnv f) 0)) (runMsgs tx.msgs (msgsEnv f) 0)

/-- the frame with which runTx continues when the ante returned without abort -/
def anteFrame (tx : Tx) (f : Frame) (a : AnteRes) : Frame :=
  { f with anteRan := true, anteDone := true, cache := a.cache, cur := a.cur, incoming := a.incoming,
           gasWanted := tx.gasWanted }

/-- the body of runTx from `amino.Unmarshal` to the final `return result` -/
def body (fin : Frame → Store → Frame) (tx : Tx) (f : Frame) : Frame :=
  match preAnte tx with
  | some r => { f with result := r }
  | none =>
    match (runAnte tx.ante tx.gasWanted f.parent f.cur).out with
    | .pan p =>
      { f with anteRan := true, cache := (runAnte tx.ante tx.gasWanted f.parent f.cur).cache,
               cur := (runAnte tx.ante tx.gasWanted f.parent f.cur).incoming,
               incoming := (runAnte tx.ante tx.gasWanted f.parent f.cur).incoming, pan := some p }
    | .abort oog =>
      { f with anteRan := true, cache := (runAnte tx.ante tx.gasWanted f.parent f.cur).cache,
               cur := (runAnte tx.ante tx.gasWanted f.parent f.cur).incoming,
               incoming := (runAnte tx.ante tx.gasWanted f.parent f.cur).incoming,
               result := if oog then .oog else .ante }
    | .done => afterAnte fin tx (anteFrame tx f (runAnte tx.ante tx.gasWanted f.parent f.cur))

/-- third defer (runs first): flush the ante writes if a checkpoint is still active -/
def deferWriteCheckpoint (f : Frame) : Frame :=
  if f.cpDefer = true ∧ f.mode = .deliver then
    match f.cp with
    | some c => { f with parent := c ++ f.parent, cache := [], cp := none }
    | none => f
  else f

/-- second defer: `defer consumeBlockGas()` -/
def deferConsumeBlockGas (f : Frame) : Frame := consumeBlockGas f

/-- first defer (runs last): recover, then GasWanted / GasUsed -/
def deferRecover (f : Frame) : Frame :=
  match f.pan with
  | some .oog => { f with result := .oog, pan := none }
  | some .other => { f with result := .internal, pan := none }
  | none => f

structure TxOut where
  res : Res
  gasWanted : Int
  gasUsed : Int
  store : Store          -- the parent store after the tx
  block : Meter
  incoming : Meter       -- the incoming meter after the tx
  cur : Meter            -- ctx.GasMeter() when runTx returned
  vm : Store
  hook : Hook
  anteRan : Bool
  anteDone : Bool
  msgsRan : Nat
  crash : Bool           -- a panic outside runTx's recover (never happens for a well-formed block meter)
  deriving Repr, Inhabited

def Frame.out (f : Frame) : TxOut :=
  { res := f.result, gasWanted := f.gasWanted, gasUsed := f.cur.gasConsumed, store := f.parent,
    block := f.block, incoming := f.incoming, cur := f.cur, vm := f.vm, hook := f.hook,
    anteRan := f.anteRan, anteDone := f.anteDone, msgsRan := f.msgsRan, crash := false }

def Frame.init (mode : Mode) (parent : Store) (block : Meter) (incoming : Meter) (vm : Store) : Frame :=
  { mode := mode, parent := parent, block := block, startingGas := 0, cur := incoming, incoming := incoming,
    gasWanted := 0, cache := [], cp := none, cpDefer := false, blockGasConsumed := false,
    result := .ok, pan := none, hook := .none, vm := vm, anteRan := false, anteDone := false, msgsRan := 0 }

/-- everything after the block-gas early exit: body, then the defers in LIFO order -/
def runFrame (fin : Frame → Store → Frame) (tx : Tx) (f : Frame) : TxOut :=
  (deferRecover (deferConsumeBlockGas (deferWriteCheckpoint (body fin tx f)))).out

/-- `runTx`, parametric in the success-path tail (`finishDeliver` now,
`finishDeliverOld` before the fix).  `ctxMeter` is the gas meter of the context
handed to runTx (the deliver/check state's infinite meter, shared by all txs of
that state). -/
def runTxWith (fin : Frame → Store → Frame) (mode : Mode) (tx : Tx) (parent : Store) (block : Meter)
    (ctxMeter : Meter) (vm : Store) : TxOut :=
  match mode with
  | .deliver =>
    -- gasleft := ctx.BlockGasMeter().Remaining(); ctx = ctx.WithGasMeter(NewPassthroughGasMeter(ctx.GasMeter(), gasleft))
    match block.remaining with
    | .error _ => { (Frame.init mode parent block ctxMeter vm).out with crash := true }
    | .ok gasleft =>
      match Basic.new gasleft with
      | .error _ => { (Frame.init mode parent block ctxMeter vm).out with crash := true }
      | .ok head =>
        if block.isOutOfGas then
          -- "no block gas left to run tx": returns before any defer is registered
          { (Frame.init mode parent block (Meter.pass ctxMeter head) vm).out with res := .oog }
        else
          runFrame fin tx { Frame.init mode parent block (Meter.pass ctxMeter head) vm with
                            startingGas := block.gasConsumed }
  | _ => runFrame fin tx (Frame.init mode parent block ctxMeter vm)

def runTx := runTxWith finishDeliver

/-- the ordering BEFORE the fix f77314a29b (regression of the model's expressiveness) -/
def runTxOld := runTxWith finishDeliverOld

/-! ## the application around runTx -/

/-- deliverState: its cache multistore, the block gas meter installed by
BeginBlock, and the context's own (infinite) gas meter -/
structure Blk where
  store : Store
  block : Meter
  ctxMeter : Meter
  begun : Bool           -- BeginBlock has run for this deliverState
  deriving Repr, Inhabited

structure App where
  maxGas : Int
  committed : Store
  check : Store
  checkMeter : Meter
  deliver : Option Blk
  commits : Nat          -- number of Commit()s so far (Simulate switches to the committed snapshot once > 0)
  vm : Store
  broken : Bool          -- BeginBlock panicked (invalid maximum block gas)
  deriving Repr, Inhabited

/-- `NewBaseApp` … `InitChain(ConsensusParams{Block{MaxGas}})` without an initChainer -/
def App.init (maxGas : Int) : App :=
  { maxGas := maxGas, committed := [], check := [], checkMeter := .infinite 0,
    deliver := some { store := [], block := .infinite 0, ctxMeter := .infinite 0, begun := false },
    commits := 0, vm := [], broken := false }

/-- the block gas meter BeginBlock installs (`getMaximumBlockGas`) -/
def blockMeterFor (maxGas : Int) : Meter :=
  if maxGas > 0 then .basic { limit := maxGas, consumed := 0 } else .infinite 0

inductive BeginOut | ok | inBlock | badMaxGas
  deriving DecidableEq, Repr

def App.begin (a : App) : App × BeginOut :=
  match a.deliver with
  | some b =>
    if b.begun then (a, .inBlock)
    else if a.maxGas < -1 then ({ a with broken := true }, .badMaxGas)
    else ({ a with deliver := some { b with block := blockMeterFor a.maxGas, begun := true } }, .ok)
  | none =>
    if a.maxGas < -1 then ({ a with broken := true }, .badMaxGas)
    else ({ a with deliver := some { store := a.committed, block := blockMeterFor a.maxGas,
                                     ctxMeter := .infinite 0, begun := true } }, .ok)

/-- EndBlock + Commit -/
def App.commit (a : App) : Option App :=
  match a.deliver with
  | some b =>
    if b.begun then
      some { a with committed := b.store, check := b.store, checkMeter := .infinite 0,
                    deliver := none, commits := a.commits + 1 }
    else none
  | none => none

/-- DeliverTx -/
def App.deliverTx (a : App) (tx : Tx) : Option (App × TxOut) :=
  match a.deliver with
  | some b =>
    if b.begun then
      let o := runTx .deliver tx b.store b.block b.ctxMeter a.vm
      some ({ a with deliver := some { b with store := o.store, block := o.block, ctxMeter := o.incoming.baseOf },
                     vm := o.vm }, o)
    else none
  | none => none

/-- a block's transactions delivered in order (stops at the first one that cannot be
delivered because no block is open) -/
def App.deliverAll (a : App) : List Tx → App × List TxOut
  | [] => (a, [])
  | tx :: rest =>
    match a.deliverTx tx with
    | some (a', o) => ((a'.deliverAll rest).1, o :: (a'.deliverAll rest).2)
    | none => (a, [])

/-- CheckTx: runs on checkState; the block meter is never consulted -/
def App.checkTx (a : App) (tx : Tx) : App × TxOut :=
  let o := runTx .check tx a.check (.infinite 0) a.checkMeter a.vm
  ({ a with check := o.store, checkMeter := o.incoming, vm := o.vm }, o)

/-- Simulate: before the first Commit it runs on a throw-away copy of checkState
(sharing checkState's gas meter); afterwards on the last committed snapshot with
a fresh infinite meter.  Nothing it writes is kept. -/
def App.simulate (a : App) (tx : Tx) : App × TxOut :=
  if a.commits = 0 then
    let o := runTx .simulate tx a.check (.infinite 0) a.checkMeter a.vm
    ({ a with checkMeter := o.incoming }, o)
  else
    let o := runTx .simulate tx a.committed (.infinite 0) (.infinite 0) a.vm
    (a, o)

end GnoVerif.C02
