import GnoVerif.Model.C43Wire
/-
C43 — model of tm2/pkg/p2p/conn/connection.go (MConnection), sender and receiver halves.

SENDER (`Channel.sendBytes/trySendBytes`, `isSendPending`, `nextPacketMsg`, `sendPacketMsg`):
* a channel has a FIFO `queue` (the `sendQueue` chan, capacity `qcap`), the message being sent
  (`sending`, empty = nil) and `recentlySent`;
* `isSendPending`: `len(sending) == 0` → pop the queue head into `sending` (if any);  QUIRK: a
  popped EMPTY message leaves `len(sending) == 0`, so unless this very call of `sendPacketMsg`
  chooses the channel, the next call pops again (or reports "nothing pending") and the empty
  message is never sent;
* `sendPacketMsg` calls `isSendPending` on EVERY channel (in `chDescs` order), then picks the pending
  channel with the least `recentlySent/priority` (strict `<`, first wins ties) and writes
  `nextPacketMsg()`: `Bytes = sending[:min(max, len)]`, `EOF = 1` iff `len(sending) <= max`.
  The float32 ratio comparison is modelled exactly by cross-multiplication (`leastIdx`); the 2 s
  `updateStats` decay is not modelled.  Theorems quantify over ARBITRARY picks (`Act.step i`).
RECEIVER (`recvRoutine`, `amino.UnmarshalSizedReader`, `Channel.recvPacketMsg`):
* byte-driven: the length prefix is read one byte at a time (at most 10; stops at the first byte
  < 0x80), then exactly `l` body bytes (`io.ReadFull`), then the body is decoded and dispatched;
* QUIRK: a transport `Read` returning `(0, nil)` while the length prefix is being read is taken as
  the byte 0x00 (the count returned by `r.Read(buf[i:i+1])` is ignored) — event `zero`;
  `io.ReadFull` ignores such reads while the body is being read;
* QUIRK: an overflowing / unterminated 10-byte prefix yields length 0 (`u64, _ := binary.Uvarint`);
* a zero-length frame decodes to the nil interface → "unknown message type" error;
* `recvPacketMsg`: capacity check `cap < len(recving)+len(Bytes)` → error; append; `EOF == 1` →
  deliver (also an EMPTY message: `recving` is non-nil) and reset; any other EOF value continues;
* every error stops the connection (`stopForError`): nothing is delivered afterwards.
The mutexes, timers, flush throttling and flow-rate limiting are not modelled: the receiver is a
function of the byte stream and of where zero-length reads occur.
Channel ids are assumed distinct per side (`channelsIdx` is a map: with duplicates the last wins).
Core-only.
-/
namespace GnoVerif.C43

/-! ## sender -/

/-- `conn.Channel`, sending half. -/
structure SChan where
  id : UInt8
  prio : Nat
  qcap : Nat
  queue : List Bytes := []
  sending : Bytes := []
  recentlySent : Nat := 0
deriving DecidableEq, Repr, Inhabited

structure Sender where
  maxPayload : Nat
  chans : List SChan
deriving DecidableEq, Repr, Inhabited

/-- `Channel.isSendPending` (with its side effect). -/
def SChan.pend (c : SChan) : SChan × Bool :=
  if c.sending.length = 0 then
    match c.queue with
    | [] => (c, false)
    | m :: q => ({ c with sending := m, queue := q }, true)
  else (c, true)

/-- `Channel.nextPacketMsg` (call only when pending). -/
def SChan.next (maxP : Nat) (c : SChan) : SChan × Packet :=
  let k := min maxP c.sending.length
  if c.sending.length ≤ maxP then ({ c with sending := [] }, .msg c.id 1 (c.sending.take k))
  else ({ c with sending := c.sending.drop k }, .msg c.id 0 (c.sending.take k))

/-- `isSendPending` applied to every channel, as the loop of `sendPacketMsg` does. -/
def pendAll (cs : List SChan) : List (SChan × Bool) := cs.map SChan.pend

/-- `MConnection.TrySend` / `Send` on a running connection: false for an unknown channel or (only
    `TrySend`; `Send` waits instead) a full queue. -/
def Sender.trySend (s : Sender) (id : UInt8) (m : Bytes) : Sender × Bool :=
  match s.chans.find? (·.id = id) with
  | none => (s, false)
  | some c =>
    if c.queue.length < c.qcap then
      ({ s with chans := s.chans.map fun c => if c.id = id then { c with queue := c.queue ++ [m] } else c }, true)
    else (s, false)

/-- `Send` (blocking): waits for room, so the model enqueues unconditionally. -/
def Sender.send (s : Sender) (id : UInt8) (m : Bytes) : Sender × Bool :=
  match s.chans.find? (·.id = id) with
  | none => (s, false)
  | some _ =>
    ({ s with chans := s.chans.map fun c => if c.id = id then { c with queue := c.queue ++ [m] } else c }, true)

/-- one `sendPacketMsg` in which the ratio comparison selects channel index `i`; defined only when
    channel `i` is pending after the `isSendPending` sweep.  (The chosen `*Channel` is updated in
    place; with distinct ids that is the update of the channel with that id.) -/
def Sender.stepAt (s : Sender) (i : Nat) : Option (Sender × Packet) :=
  let ps := pendAll s.chans
  match ps[i]? with
  | some (c, true) =>
    let (c', p) := c.next s.maxPayload
    let c'' := { c' with recentlySent := c'.recentlySent + (encFrame p).length }
    some ({ s with chans := (ps.map (·.1)).map fun x => if x.id = c.id then c'' else x }, p)
  | _ => none

/-- the selection of `sendPacketMsg`: least `recentlySent/priority` among pending channels,
    strict `<`, first wins (exact rational comparison instead of float32). -/
def leastIdxAux : List (SChan × Bool) → Nat → Option (Nat × SChan) → Option (Nat × SChan)
  | [], _, best => best
  | (c, pending) :: rest, i, best =>
    if ¬ pending then leastIdxAux rest (i + 1) best
    else match best with
      | none => leastIdxAux rest (i + 1) (some (i, c))
      | some (_, b) =>
        if c.recentlySent * b.prio < b.recentlySent * c.prio then leastIdxAux rest (i + 1) (some (i, c))
        else leastIdxAux rest (i + 1) best

def leastIdx (ps : List (SChan × Bool)) : Option Nat := (leastIdxAux ps 0 none).map (·.1)

/-- `sendPacketMsg` with the code's own choice; `none` packet = "nothing to send" (the sweep's side
    effects are kept). -/
def Sender.stepDet (s : Sender) : Sender × Option Packet :=
  let ps := pendAll s.chans
  match leastIdx ps with
  | none => ({ s with chans := ps.map (·.1) }, none)
  | some i =>
    match s.stepAt i with
    | some (s', p) => (s', some p)
    | none => ({ s with chans := ps.map (·.1) }, none)

/-- run `stepDet` until nothing is pending (fuel = an upper bound on the number of packets). -/
def Sender.drain : Nat → Sender → List Packet → Sender × List Packet
  | 0, s, acc => (s, acc.reverse)
  | fuel+1, s, acc =>
    match s.stepDet with
    | (s', none) => (s', acc.reverse)
    | (s', some p) => Sender.drain fuel s' (p :: acc)

/-- enough fuel for `drain`: every pending message of length n needs at most n/max + 1 packets. -/
def Sender.fuel (s : Sender) : Nat :=
  s.chans.foldl (fun a c => a + (c.sending.length + 1) + (c.queue.foldl (fun a m => a + m.length + 1) 0)) 1

/-! ## receiver -/

inductive Err where
  | eof | ueof | malformed | unknownChannel | overCapacity
deriving DecidableEq, Repr, Inhabited

/-- `conn.Channel`, receiving half (`cap` = RecvMessageCapacity after FillDefaults). -/
structure RChan where
  id : UInt8
  cap : Nat
  recving : Bytes := []
deriving DecidableEq, Repr, Inhabited

/-- where `UnmarshalSizedReader` is: reading the length prefix (bytes so far) or the body
    (`need` bytes still missing, bytes so far in reverse). -/
inductive Phase where
  | len (acc : Bytes)
  | body (need : Nat) (accRev : Bytes)
deriving DecidableEq, Repr, Inhabited

structure Recv where
  maxFrame : Nat
  chans : List RChan
  phase : Phase := .len []
  delivered : List (UInt8 × Bytes) := []
  log : List Packet := []            -- ghost: packets dispatched without error, in order
  err : Option Err := none
deriving DecidableEq, Repr, Inhabited

/-- `defaultRecvMessageCapacity`. -/
def defaultRecvMessageCapacity : Nat := 22020096

/-- `MConnection.maxPacketMsgSize()`. -/
def maxPacketMsgSize (maxPayload : Nat) : Nat :=
  (encFrame (.msg 1 1 (List.replicate maxPayload 0))).length + 10

/-- `stopForError`: nothing is read any more (the phase is reset so that a closed receiver does not
    depend on where it stopped). -/
def Recv.close (r : Recv) (e : Err) : Recv := { r with err := some e, phase := .len [] }

/-- the `switch pkt := packet.(type)` of `recvRoutine` incl. `Channel.recvPacketMsg`. -/
def Recv.onPacket (r : Recv) (p : Packet) : Recv :=
  match p with
  | .ping => { r with log := r.log ++ [p] }
  | .pong => { r with log := r.log ++ [p] }
  | .msg ch eof bs =>
    match r.chans.find? (·.id = ch) with
    | none => r.close .unknownChannel
    | some c =>
      if c.cap < c.recving.length + bs.length then r.close .overCapacity
      else
        let whole := c.recving ++ bs
        if eof = 1 then
          { r with chans := r.chans.map (fun c => if c.id = ch then { c with recving := [] } else c),
                   delivered := r.delivered ++ [(ch, whole)], log := r.log ++ [p] }
        else
          { r with chans := r.chans.map (fun c => if c.id = ch then { c with recving := whole } else c),
                   log := r.log ++ [p] }

/-- a complete frame body has been read: decode and dispatch. -/
def Recv.onBody (r : Recv) (body : Bytes) : Recv :=
  match decodePacket body with
  | none => r.close .malformed
  | some none => r.close .malformed            -- "unknown message type <nil>"
  | some (some p) => ({ r with phase := .len [] }).onPacket p

/-- the length prefix `acc` is complete (last byte < 0x80, or 10 bytes read). -/
def Recv.onLen (r : Recv) (acc : Bytes) : Recv :=
  let u64 := (goUvarint acc).1
  if r.maxFrame < u64 then r.close .malformed
  else if (r.maxFrame : Int) - acc.length < u64 then r.close .malformed
  else if u64 = 0 then ({ r with phase := .len [] }).onBody []
  else { r with phase := .body u64 [] }

/-- one byte arrives. -/
def Recv.onByte (r : Recv) (b : UInt8) : Recv :=
  match r.err with
  | some _ => r
  | none =>
    match r.phase with
    | .len acc =>
      let acc' := acc ++ [b]
      if b < 0x80 ∨ acc'.length = 10 then r.onLen acc' else { r with phase := .len acc' }
    | .body need accRev =>
      if need ≤ 1 then ({ r with phase := .len [] }).onBody (b :: accRev).reverse
      else { r with phase := .body (need - 1) (b :: accRev) }

/-- transport events: a byte, a zero-length read `(0, nil)`, end of stream. -/
inductive Ev where
  | byte (b : UInt8)
  | zero
  | eof
deriving DecidableEq, Repr, Inhabited

def Recv.onEv (r : Recv) (e : Ev) : Recv :=
  match r.err with
  | some _ => r
  | none =>
    match e with
    | .byte b => r.onByte b
    | .zero =>
      match r.phase with
      | .len _ => r.onByte 0         -- the unread buffer byte 0x00 is taken as data
      | .body .. => r                -- io.ReadFull retries
    | .eof =>
      match r.phase with
      | .len _ => r.close .eof
      | .body _ [] => r.close .eof   -- io.ReadFull: no byte read → io.EOF
      | .body _ _ => r.close .ueof   -- io.ErrUnexpectedEOF

def Recv.feed (r : Recv) (bs : Bytes) : Recv := bs.foldl Recv.onByte r

def Recv.run (r : Recv) (es : List Ev) : Recv := es.foldl Recv.onEv r

/-- events of one transport read returning `chunk` (an empty chunk is a zero-length read). -/
def chunkEvs (chunk : Bytes) : List Ev := if chunk.length = 0 then [.zero] else chunk.map .byte

/-- the receiver after the transport delivered `chunks` one read at a time. -/
def Recv.feedChunks (r : Recv) (chunks : List Bytes) : Recv := r.run (chunks.flatMap chunkEvs)

def Recv.deliveredOn (r : Recv) (ch : UInt8) : List Bytes :=
  (r.delivered.filter (·.1 = ch)).map (·.2)

/-! ## configuration -/

/-- `ChannelDescriptor` fields used by the sender. -/
structure SDesc where
  id : UInt8
  prio : Nat
  qcap : Nat
deriving DecidableEq, Repr, Inhabited

/-- `ChannelDescriptor` fields used by the receiver. -/
structure RDesc where
  id : UInt8
  cap : Nat
deriving DecidableEq, Repr, Inhabited

/-- `newChannel` + `FillDefaults` (sending half). -/
def mkSChan (d : SDesc) : SChan :=
  { id := d.id, prio := d.prio, qcap := if d.qcap = 0 then 1 else d.qcap }

/-- `newChannel` + `FillDefaults` (receiving half). -/
def mkRChan (d : RDesc) : RChan :=
  { id := d.id, cap := if d.cap = 0 then defaultRecvMessageCapacity else d.cap }

def mkSender (maxPayload : Nat) (ds : List SDesc) : Sender :=
  { maxPayload := maxPayload, chans := ds.map mkSChan }

def mkRecv (maxPayload : Nat) (ds : List RDesc) : Recv :=
  { maxFrame := maxPacketMsgSize maxPayload, chans := ds.map mkRChan }

/-! ## the sending side as a transition system (for the theorems) -/

/-- what can happen on the sending side, in any order: an accepted `Send`, a `TrySend`, one
    `sendPacketMsg` that picks channel index `i`, a ping or a pong written by `sendRoutine`. -/
inductive Act where
  | send (id : UInt8) (m : Bytes)
  | trySend (id : UInt8) (m : Bytes)
  | step (i : Nat)
  | ping
  | pong
deriving DecidableEq, Repr, Inhabited

/-- sender state + every packet written so far + per-channel accepted messages. -/
structure SRun where
  snd : Sender
  out : List Packet := []
  accepted : List (UInt8 × Bytes) := []
deriving DecidableEq, Repr, Inhabited

/-- the packets written by one action. -/
def SRun.emit (t : SRun) : Act → List Packet
  | .step i =>
    match t.snd.stepAt i with
    | some (_, p) => [p]
    | none => []
  | .ping => [.ping]
  | .pong => [.pong]
  | _ => []

def SRun.act (t : SRun) : Act → SRun
  | .send id m =>
    let (s, ok) := t.snd.send id m
    if ok then { t with snd := s, accepted := t.accepted ++ [(id, m)] } else t
  | .trySend id m =>
    let (s, ok) := t.snd.trySend id m
    if ok then { t with snd := s, accepted := t.accepted ++ [(id, m)] } else t
  | .step i =>
    match t.snd.stepAt i with
    | some (s, p) => { t with snd := s, out := t.out ++ [p] }
    | none => t
  | .ping => { t with out := t.out ++ [.ping] }
  | .pong => { t with out := t.out ++ [.pong] }

def SRun.run (t : SRun) (acts : List Act) : SRun := acts.foldl SRun.act t

def SRun.acceptedOn (t : SRun) (ch : UInt8) : List Bytes :=
  (t.accepted.filter (·.1 = ch)).map (·.2)

/-- the bytes written to the transport. -/
def wireOf (ps : List Packet) : Bytes := ps.flatMap encFrame

/-- nothing left to send. -/
def Sender.exhausted (s : Sender) : Prop := ∀ c ∈ s.chans, c.queue = [] ∧ c.sending = []


/-! ## guards used by the theorems -/

/-- a message the receiver configured with `rd` can take: on a channel it has, within that
    channel's capacity. -/
def MsgFits (rd : List RDesc) (id : UInt8) (m : Bytes) : Prop :=
  ∃ d ∈ rd, d.id = id ∧ m.length ≤ (mkRChan d).cap

/-- … and non-empty (the guard of the delivery theorem: empty messages can be lost). -/
def MsgOK (rd : List RDesc) (id : UInt8) (m : Bytes) : Prop :=
  m ≠ [] ∧ MsgFits rd id m

def ActFits (rd : List RDesc) : Act → Prop
  | .send id m => MsgFits rd id m
  | .trySend id m => MsgFits rd id m
  | _ => True

def ActOK (rd : List RDesc) : Act → Prop
  | .send id m => MsgOK rd id m
  | .trySend id m => MsgOK rd id m
  | _ => True

/-- a freshly started sending side. -/
def initRun (P : Nat) (sd : List SDesc) : SRun := { snd := mkSender P sd }


/-! ## reference reassembly (specification) -/

/-- what a packet log means: per-channel bytes of the message in progress, and the completed
    messages in order.  A message is complete exactly at a packet with `EOF = 1`. -/
def specStep (st : (UInt8 → Bytes) × List (UInt8 × Bytes)) : Packet → (UInt8 → Bytes) × List (UInt8 × Bytes)
  | .msg ch eof bs =>
    if eof = 1 then (fun c => if c = ch then [] else st.1 c, st.2 ++ [(ch, st.1 ch ++ bs)])
    else (fun c => if c = ch then st.1 ch ++ bs else st.1 c, st.2)
  | _ => st

def specAssemble (log : List Packet) : (UInt8 → Bytes) × List (UInt8 × Bytes) :=
  log.foldl specStep (fun _ => [], [])

end GnoVerif.C43
