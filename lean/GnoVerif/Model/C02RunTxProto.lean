import GnoVerif.Base.Kit
import GnoVerif.Model.C02RunTx
/-
Line protocol of the runTx model (shared by the C02 and C10 drivers).

  init <maxGas>
  begin
  tx|check|sim <gasWanted> A:<kind>[R]:<pre-steps>:<steps> (M|V|U):<steps> ...
  tx|check|sim raw <hex>
  end

kind  b basic(gasWanted) | p passthrough(incoming, gasWanted) | i infinite | k keep; R = the ante recovers OutOfGas
M routable valid message, V message failing ValidateBasic, U message with an unknown route
steps comma separated:  w.<store>.<hexkey>.<hexval>  d.<store>.<hexkey>  c.<n>  r.<n>
      q.<store>.<hexkey>.<hexval|->  e  p  o  and (ante only) z  n
-/
namespace GnoVerif.C02.Proto
open GnoVerif GnoVerif.Kit GnoVerif.C10 GnoVerif.C02

/-- strict decimal int64: `-?[0-9]{1,19}` and in range -/
def parseI64 (s : String) : Option Int :=
  let cs := s.toList
  let (neg, ds) := match cs with
    | '-' :: r => (true, r)
    | r => (false, r)
  if ds.isEmpty || ds.length > 19 || !(ds.all Char.isDigit) then none
  else
    let n : Nat := ds.foldl (fun acc c => acc * 10 + (c.toNat - '0'.toNat)) 0
    let v : Int := if neg then -(n : Int) else (n : Int)
    if inI64 v then some v else none

def isLowerHex (c : Char) : Bool := ('0' ≤ c && c ≤ '9') || ('a' ≤ c && c ≤ 'f')

/-- non-empty even-length lowercase hex -/
def isHexTok (s : String) : Bool :=
  let cs := s.toList
  !cs.isEmpty && cs.length % 2 == 0 && cs.all isLowerHex

def isStoreTok (s : String) : Bool := s == "x" || s == "y"

def parseStep (ante : Bool) (s : String) : Option Step :=
  match s.splitOn "." with
  | ["w", st, k, v] => if isStoreTok st && isHexTok k && isHexTok v then some (.write (st ++ "/" ++ k) v) else none
  | ["d", st, k] => if isStoreTok st && isHexTok k then some (.del (st ++ "/" ++ k)) else none
  | ["c", n] => (parseI64 n).map .consume
  | ["r", n] => (parseI64 n).map .refund
  | ["q", st, k, v] =>
    if isStoreTok st && isHexTok k then
      if v == "-" then some (.require (st ++ "/" ++ k) none)
      else if isHexTok v then some (.require (st ++ "/" ++ k) (some v)) else none
    else none
  | ["e"] => some .fail
  | ["p"] => some .panic
  | ["o"] => some .oogPanic
  | ["z"] => if ante then some .zeroCtx else none
  | ["n"] => if ante then some .abortNoErr else none
  | _ => none

def parseSteps (ante : Bool) (s : String) : Option (List Step) :=
  if s.isEmpty then some []
  else (s.splitOn ",").mapM (parseStep ante)

def parseAnte (s : String) : Option Ante :=
  match s.splitOn ":" with
  | ["A", kind, pre, steps] =>
    let kr : Option (MeterKind × Bool) := match kind with
      | "b" => some (.basic, false) | "bR" => some (.basic, true)
      | "p" => some (.pass, false) | "pR" => some (.pass, true)
      | "i" => some (.inf, false) | "iR" => some (.inf, true)
      | "k" => some (.keep, false) | "kR" => some (.keep, true)
      | _ => none
    match kr, parseSteps true pre, parseSteps true steps with
    | some (k, r), some p, some st => some { kind := k, recovers := r, pre := p, steps := st }
    | _, _, _ => none
  | _ => none

def parseMsg (s : String) : Option Msg :=
  match s.splitOn ":" with
  | [tag, steps] =>
    match tag, parseSteps false steps with
    | "M", some st => some { valid := true, routable := true, steps := st }
    | "V", some st => some { valid := false, routable := true, steps := st }
    | "U", some st => some { valid := true, routable := false, steps := st }
    | _, _ => none
  | _ => none

def parseTx (t : List String) : Option Tx :=
  match t with
  | ["raw", h] => if isHexTok h then
      some { decodable := false, gasWanted := 0, ante := { kind := .basic, recovers := false, pre := [], steps := [] }, msgs := [] }
    else none
  | gw :: a :: ms =>
    match parseI64 gw, parseAnte a, ms.mapM parseMsg with
    | some g, some an, some msgs => some { decodable := true, gasWanted := g, ante := an, msgs := msgs }
    | _, _, _ => none
  | _ => none

/-! printing -/

def Store.keys (s : Store) : List Key := (s.map (·.1)).eraseDups

def dumpStore (s : Store) : String :=
  let live := (Store.keys s).filterMap (fun k => (Store.get s k).map (fun v => (k, v)))
  let sorted := live.mergeSort (fun a b => decide (a.1 ≤ b.1))
  if sorted.isEmpty then "e" else ",".intercalate (sorted.map (fun kv => kv.1 ++ "=" ++ kv.2))

def showRes : Res → String
  | .ok => "ok" | .oog => "err:oog" | .internal => "err:internal" | .txdecode => "err:txdecode"
  | .unknownrequest => "err:unknownrequest" | .basic => "err:basic" | .ante => "err:ante" | .msg => "err:msg"

def showHook : Hook → String
  | .none => "none" | .ok => "ok" | .fail => "fail"

def showBlockMeter : Meter → String
  | .infinite c => s!"{c}/inf"
  | m => s!"{m.gasConsumed}/{m.limit}"

/-- protocol state: the app plus the check / committed / side-cache dumps as last
printed (they are printed as `~` while unchanged, to keep lines short) -/
structure PState where
  app : Option App := none
  lastC : String := ""
  lastK : String := ""
  lastV : String := ""

def delta (last cur : String) : String := if last == cur then "~" else cur

def showState (p : PState) (a : App) : PState × String :=
  let d := match a.deliver with
    | some b => if b.begun then s!"D={dumpStore b.store} blk={showBlockMeter b.block} cm={b.ctxMeter.gasConsumed}" else "D=- blk=- cm=-"
    | none => "D=- blk=- cm=-"
  let c := dumpStore a.check
  let k := dumpStore a.committed
  let v := dumpStore a.vm
  ({ p with app := some a, lastC := c, lastK := k, lastV := v },
   s!"{d} C={delta p.lastC c} K={delta p.lastK k} V={delta p.lastV v}")

def showOut (o : TxOut) : String :=
  if o.crash then "res=crash" else
  s!"res={showRes o.res} gw={o.gasWanted} gu={o.gasUsed} ran=a{if o.anteDone then 2 else if o.anteRan then 1 else 0}m{o.msgsRan} hook={showHook o.hook}"

def withState (p : PState) (a : App) (pre : String) : PState × String :=
  let r := showState p a
  (r.1, pre ++ " " ++ r.2)

/-- one protocol line -/
def step (p : PState) (t : List String) : PState × String :=
  match t with
  | ["init", g] =>
    match parseI64 g with
    | some mg => ({ app := some (App.init mg) }, "ok")
    | none => (p, "err:badop")
  | op :: rest =>
    if op != "begin" && op != "end" && op != "tx" && op != "check" && op != "sim" then (p, "err:badop") else
    match p.app with
    | none => (p, "err:noapp")
    | some a =>
      if a.broken then (p, "err:broken") else
      match op, rest with
      | "begin", [] =>
        match a.begin with
        | (a', .ok) => withState p a' "ok"
        | (_, .inBlock) => (p, "err:inblock")
        | (a', .badMaxGas) => ({ p with app := some a' }, "panic:badmaxgas")
      | "end", [] =>
        match a.commit with
        | some a' => withState p a' "ok"
        | none => (p, "err:noblock")
      | "tx", args =>
        match parseTx args with
        | none => (p, "err:badop")
        | some tx =>
          match a.deliverTx tx with
          | some (a', o) => withState p a' (showOut o)
          | none => (p, "err:noblock")
      | "check", args =>
        match parseTx args with
        | none => (p, "err:badop")
        | some tx => let r := a.checkTx tx; withState p r.1 (showOut r.2)
      | "sim", args =>
        match parseTx args with
        | none => (p, "err:badop")
        | some tx => let r := a.simulate tx; withState p r.1 (showOut r.2)
      | _, _ => (p, "err:badop")
  | _ => (p, "err:badop")

end GnoVerif.C02.Proto
