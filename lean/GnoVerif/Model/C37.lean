/-
Model of tm2/pkg/bft/types/validator_set.go (+ validator.go's CompareProposerPriority):
proposer-priority rotation and validator-set updates.  Core-only, executable.

Go `int64` values are modelled as `Int`; every place where the Go code clips
(`safeAddClip`, `safeSubClip`) or can wrap (plain `-`, `+`, `*`, `/` on int64 in
`computeMaxMinPriorityDiff` / `RescalePriorities`) is written with an explicit
`clip` / `wrap64`.  Theorems then show under which state invariants these are
the identity.  Addresses are natural numbers ordered like the 20-byte addresses.
-/
namespace GnoVerif.C37

def maxInt64 : Int := 9223372036854775807
def minInt64 : Int := -9223372036854775808
/-- `MaxTotalVotingPower = int64(math.MaxInt64) / 8` -/
def maxTotal : Int := 1152921504606846975
/-- `PriorityWindowSizeFactor` -/
def windowFactor : Int := 2

/-- saturation to the int64 range (what `safeAddClip`/`safeSubClip` compute on the exact sum/difference) -/
def clip (x : Int) : Int :=
  if x > maxInt64 then maxInt64 else if x < minInt64 then minInt64 else x

/-- two's-complement wrap-around of an exact result into int64 -/
def wrap64 (x : Int) : Int :=
  (x + 9223372036854775808) % 18446744073709551616 - 9223372036854775808

structure Val where
  addr : Nat
  power : Int
  prio : Int
deriving DecidableEq, Repr, Inhabited

/-- `ValidatorSet`: `Validators`, cached `totalVotingPower`, `Proposer` (its address). -/
structure VSet where
  vals : List Val
  total : Int
  proposer : Option Nat
deriving DecidableEq, Repr, Inhabited

def VSet.empty : VSet := ⟨[], 0, none⟩

/-- Returned errors of `updateWithChangeSet` (receiver untouched) and Go panics. -/
inductive Err
  | dup | neg | toobig | zero | unknown | overflow | empty   -- returned errors
  | pEmpty | pTimes | pTotal | pDivZero                      -- run-time panics
  | pNew (e : Err)                                           -- `NewValidatorSet` panics with the error
deriving DecidableEq, Repr

def Err.isReturned : Err → Bool
  | .dup | .neg | .toobig | .zero | .unknown | .overflow | .empty => true
  | _ => false

def Err.name : Err → String
  | .dup => "dup" | .neg => "neg" | .toobig => "toobig" | .zero => "zero"
  | .unknown => "unknown" | .overflow => "overflow" | .empty => "empty"
  | .pEmpty => "empty" | .pTimes => "times" | .pTotal => "total" | .pDivZero => "divzero"
  | .pNew e => "new:" ++ e.name

def Err.token (e : Err) : String :=
  if e.isReturned then "err:" ++ e.name else "panic:" ++ e.name

def setPrio (v : Val) (p : Int) : Val := { v with prio := p }

/-! ### priorities: max−min, rescale, centre -/

/-- `maxVal` loop of `computeMaxMinPriorityDiff` (starts at `math.MinInt64`) -/
def maxPrio (vs : List Val) : Int :=
  vs.foldl (fun m v => if v.prio > m then v.prio else m) minInt64

/-- `minVal` loop of `computeMaxMinPriorityDiff` (starts at `math.MaxInt64`) -/
def minPrio (vs : List Val) : Int :=
  vs.foldl (fun m v => if v.prio < m then v.prio else m) maxInt64

/-- `computeMaxMinPriorityDiff`: `diff := maxVal - minVal; if diff < 0 { return -1 * diff }` in int64 -/
def prioDiff (vs : List Val) : Int :=
  let d := wrap64 (maxPrio vs - minPrio vs)
  if d < 0 then wrap64 (-1 * d) else d

/-- `ratio := (diff + diffMax - 1) / diffMax` in int64 (truncating division) -/
def rescaleRatio (diffMax : Int) (vs : List Val) : Int :=
  Int.tdiv (wrap64 (wrap64 (prioDiff vs + diffMax) - 1)) diffMax

/-- `RescalePriorities(diffMax)`; `val.ProposerPriority /= ratio` truncates toward zero.
(With `ratio = 0` Go panics with a division by zero: see `rescalePanics`.) -/
def rescale (diffMax : Int) (vs : List Val) : List Val :=
  if diffMax ≤ 0 then vs
  else if prioDiff vs > diffMax then
    vs.map fun v => setPrio v (wrap64 (Int.tdiv v.prio (rescaleRatio diffMax vs)))
  else vs

/-- the one run-time panic inside `RescalePriorities` on a non-empty set -/
def rescalePanics (diffMax : Int) (vs : List Val) : Bool :=
  decide (0 < diffMax) && decide (prioDiff vs > diffMax) && decide (rescaleRatio diffMax vs = 0)

def sumPrio : List Val → Int
  | [] => 0
  | v :: vs => v.prio + sumPrio vs

def sumPower : List Val → Int
  | [] => 0
  | v :: vs => v.power + sumPower vs

/-- `computeAvgProposerPriority`: exact sum in `big.Int`, Euclidean `Div` by `n > 0` -/
def avgPrio (vs : List Val) : Int := sumPrio vs / (vs.length : Int)

/-- `shiftByAvgProposerPriority` -/
def shiftByAvg (vs : List Val) : List Val :=
  let a := avgPrio vs
  vs.map fun v => setPrio v (clip (v.prio - a))

/-! ### one round of `incrementProposerPriority` -/

/-- `CompareProposerPriority` (the identical-address panic cannot occur inside a set) -/
def better (a b : Val) : Val :=
  if a.prio > b.prio then a
  else if a.prio < b.prio then b
  else if a.addr < b.addr then a else b

/-- `getValWithMostPriority` -/
def most : List Val → Option Val
  | [] => none
  | v :: vs => some (vs.foldl better v)

def addPowers (vs : List Val) : List Val :=
  vs.map fun v => setPrio v (clip (v.prio + v.power))

def subAt (a : Nat) (total : Int) (vs : List Val) : List Val :=
  vs.map fun v => if v.addr = a then setPrio v (clip (v.prio - total)) else v

/-- `incrementProposerPriority()`: returns the new list and the chosen validator's address -/
def stepOnce (total : Int) (vs : List Val) : List Val × Option Nat :=
  let vs1 := addPowers vs
  match most vs1 with
  | none => (vs1, none)
  | some m => (subAt m.addr total vs1, some m.addr)

def stepN : Nat → Int → List Val → Option Nat → List Val × Option Nat
  | 0, _, vs, p => (vs, p)
  | k + 1, T, vs, _ => stepN k T (stepOnce T vs).1 (stepOnce T vs).2

/-- `updateTotalVotingPower`'s loop (`safeAddClip`); its `> MaxTotalVotingPower` panic is `totalPanics`. -/
def sumPowerClip (vs : List Val) : Int :=
  vs.foldl (fun s v => clip (s + v.power)) 0

/-- does the running clipped sum exceed the cap at some prefix (then Go panics) -/
def totalPanics (vs : List Val) : Bool :=
  (vs.foldl (fun (acc : Int × Bool) v =>
      let s := clip (acc.1 + v.power)
      (s, acc.2 || decide (s > maxTotal))) (0, false)).2

/-- `TotalVotingPower()`: the cache, recomputed when it is 0 -/
def totalVP (s : VSet) : Int :=
  if s.total = 0 then sumPowerClip s.vals else s.total

/-- Body of `IncrementProposerPriority(times)` for a non-empty set and `times > 0`. -/
def incTimes (times : Nat) (s : VSet) : VSet :=
  let T := totalVP s
  let vs0 := shiftByAvg (rescale (windowFactor * T) s.vals)
  let r := stepN times T vs0 s.proposer
  { vals := r.1, total := T, proposer := r.2 }

/-- `IncrementProposerPriority(times)` with its panics. -/
def opInc (times : Int) (s : VSet) : Except Err VSet :=
  if s.vals.isEmpty then .error .pEmpty
  else if times ≤ 0 then .error .pTimes
  else if s.total = 0 && totalPanics s.vals then .error .pTotal
  else if rescalePanics (windowFactor * totalVP s) s.vals then .error .pDivZero
  else .ok (incTimes times.toNat s)

/-! ### `updateWithChangeSet` -/

def lookup (a : Nat) : List Val → Option Val
  | [] => none
  | v :: vs => if v.addr = a then some v else lookup a vs

/-- insertion of an EARLIER element into the sorted tail: it goes before every entry with
an address ≥ its own, so equal addresses keep their original order (stable). -/
def insertByAddr (x : Val) : List Val → List Val
  | [] => [x]
  | y :: ys => if x.addr ≤ y.addr then x :: y :: ys else y :: insertByAddr x ys

/-- `sort.Sort(ValidatorsByAddress(changes))` (an insertion sort for ≤ 12 elements; the
order among equal addresses matters only for which error a bad list reports). -/
def sortByAddr : List Val → List Val
  | [] => []
  | x :: xs => insertByAddr x (sortByAddr xs)

/-- the scan of `processChanges` over the sorted changes: (updates, removals) -/
def scanChanges : Option Nat → List Val → Except Err (List Val × List Val)
  | _, [] => .ok ([], [])
  | prev, u :: rest =>
    if prev = some u.addr then .error .dup
    else if u.power < 0 then .error .neg
    else if u.power > maxTotal then .error .toobig
    else
      match scanChanges (some u.addr) rest with
      | .error e => .error e
      | .ok (ups, dels) => if u.power = 0 then .ok (ups, u :: dels) else .ok (u :: ups, dels)

def processChanges (changes : List Val) : Except Err (List Val × List Val) :=
  scanChanges none (sortByAddr changes)

/-- `verifyRemovals` -/
def verifyRemovals (vals : List Val) (dels : List Val) : Bool :=
  dels.all fun d => (lookup d.addr vals).isSome

/-- `verifyUpdates`: the running total is checked after EVERY update and never sees the removals -/
def verifyUpdates (vals : List Val) : List Val → Int → Nat → Except Err (Int × Nat)
  | [], tot, nn => .ok (tot, nn)
  | u :: us, tot, nn =>
    match lookup u.addr vals with
    | none =>
      if tot + u.power > maxTotal then .error .overflow
      else verifyUpdates vals us (tot + u.power) (nn + 1)
    | some v =>
      if tot + (u.power - v.power) > maxTotal then .error .overflow
      else verifyUpdates vals us (tot + (u.power - v.power)) nn

/-- `computeNewPriorities`: a new validator starts at `-(T' + T'>>3)` -/
def computeNewPriorities (vals : List Val) (newTotal : Int) (ups : List Val) : List Val :=
  ups.map fun u =>
    match lookup u.addr vals with
    | none => setPrio u (-(newTotal + newTotal / 8))
    | some v => setPrio u v.prio

/-- `applyUpdates` (fuel = sum of lengths suffices) -/
def mergeFuel : Nat → List Val → List Val → List Val
  | 0, es, us => es ++ us
  | _ + 1, [], us => us
  | _ + 1, es, [] => es
  | f + 1, e :: es, u :: us =>
    if e.addr < u.addr then e :: mergeFuel f es (u :: us)
    else if e.addr = u.addr then u :: mergeFuel f es us
    else u :: mergeFuel f (e :: es) us

def applyUpdates (es us : List Val) : List Val := mergeFuel (es.length + us.length) es us

/-- `applyRemovals` -/
def applyRemovals : List Val → List Val → List Val
  | [], _ => []
  | e :: es, ds =>
    match ds with
    | [] => e :: es
    | d :: ds' => if e.addr = d.addr then applyRemovals es ds' else e :: applyRemovals es ds

/-- the tail of `updateWithChangeSet` once the merged list is known: `updateTotalVotingPower`,
`RescalePriorities(PriorityWindowSizeFactor * TotalVotingPower())`, `shiftByAvgProposerPriority`. -/
def finishUpdate (s : VSet) (merged : List Val) : Except Err VSet :=
  if totalPanics merged then .error .pTotal
  else
    let T := sumPowerClip merged
    -- `TotalVotingPower()` re-reads the cache (recomputing if it is 0)
    let T' := if T = 0 then sumPowerClip merged else T
    if rescalePanics (windowFactor * T') merged then .error .pDivZero
    else
      .ok { vals := shiftByAvg (rescale (windowFactor * T') merged), total := T, proposer := s.proposer }

/-- `updateWithChangeSet(changes, allowDeletes)`.  an `Err` with `isReturned` = returned error (receiver
untouched); the others are Go panics (shown unreachable from well-formed sets). -/
def updateWith (allowDeletes : Bool) (s : VSet) (changes : List Val) : Except Err VSet :=
  if changes.isEmpty then .ok s else
  match processChanges changes with
  | .error e => .error e
  | .ok (ups, dels) =>
    if !allowDeletes && !dels.isEmpty then .error .zero
    else if !verifyRemovals s.vals dels then .error .unknown
    else if s.total = 0 && totalPanics s.vals then .error .pTotal
    else
      match verifyUpdates s.vals ups (totalVP s) 0 with
      | .error e => .error e
      | .ok (newTotal, numNew) =>
        if numNew = 0 && s.vals.length = dels.length then .error .empty
        else
          finishUpdate s (applyRemovals (applyUpdates s.vals (computeNewPriorities s.vals newTotal ups)) dels)

/-- `UpdateWithChangeSet` -/
def update (s : VSet) (changes : List Val) : Except Err VSet := updateWith true s changes

/-- `NewValidatorSet(valz)`: panics on any error; one `IncrementProposerPriority(1)` if non-empty. -/
def newSet (valz : List Val) : Except Err VSet :=
  match updateWith false VSet.empty valz with
  | .error e => .error (.pNew e)
  | .ok s => if valz.isEmpty then .ok s else opInc 1 s

end GnoVerif.C37
