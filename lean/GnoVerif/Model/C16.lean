import GnoVerif.Gen.C16Facts
/-!
C16 — model of the session-key spend accounting and restrictions of gno.land.

Mirrors, function by function (read line by line; quirks kept):

* `tm2/pkg/std/coin.go`          `Coins.IsZero/AmountOf/AddUnsafe/Add/validate/IsAllGTE`, the amino
                                 round trip of `Coins`/`Coin` (`String` + `ParseCoins`: zero coins
                                 print as "", negatives do not parse, the set is sorted and validated)
* `tm2/pkg/sdk/auth/spend.go`    `DeductSessionSpend`, `CheckSessionSpend`, `CheckAndDeductSessionSpend`
* `tm2/pkg/sdk/auth/ante.go`     phases 1–3 of `NewAnteHandler` for session and master signers, `DeductFees`
* `tm2/pkg/sdk/auth/handler.go`  `handleMsgCreateSession / RevokeSession / RevokeAllSessions`
* `tm2/pkg/sdk/bank/keeper.go`   `SendCoins` (session hook before the debit), `SendCoinsUnrestricted`,
                                 `SubtractCoins`, `AddCoins` on per-denom balances
* `gno.land/pkg/gnoland/app.go`  `checkSessionRestrictions`, `allow_paths.go` `parseAllowPathsEntry`
* `gno.land/pkg/sdk/vm/keeper.go` `Call`/`Run` (Send through `bank.SendCoins`), `processStorageDeposit`
                                 → `lockStorageDeposit` (hook, then unrestricted transfer) / refund
* `tm2/pkg/sdk/baseapp.go`       `runTx`: decode, `validateBasicTxMsgs`, ante (abort ⇒ nothing kept),
                                 msgs (failure or panic ⇒ only the ante writes are kept)

Not modelled (fixed by the harness, see props/C16.json): gas (every tx carries enough),
signature bytes (every signature is valid for the account number / sequence it is checked
against), restricted denoms and vesting (none), the GnoVM beyond the three sink functions
and three run scripts.  The in-memory `DelegatedAccount` of a tx and its stored record are
one object here: they coincide whenever either is observable (after phase 3 and after every
successful `CheckAndDeductSessionSpend`), and every error path discards both.
-/
namespace GnoVerif.C16
open GnoVerif.Gen.C16

/-! ## Coins -/

abbrev Denom := String
abbrev Coin := Denom × Int
abbrev Coins := List Coin

def maxInt64 : Int := 9223372036854775807
def minInt64 : Int := -9223372036854775808
def inI64 (x : Int) : Bool := decide (minInt64 ≤ x) && decide (x ≤ maxInt64)

def denomHead (c : Char) : Bool := (decide ('a' ≤ c) && decide (c ≤ 'z')) || c == '/'
def denomTail (c : Char) : Bool :=
  (decide ('a' ≤ c) && decide (c ≤ 'z')) || (decide ('0' ≤ c) && decide (c ≤ '9')) ||
  c == '_' || c == '.' || c == ':' || c == '/' || c == '-'

/-- `std.validDenom` (`[a-z/][a-z0-9_.:/] or dash, at least 3 bytes`); the length cap `MaxDenomLength` (274) is
    out of reach of the op grammar (denoms ≤ 20 bytes). -/
def validDenom (d : Denom) : Bool :=
  match d.toList with
  | [] => false
  | c :: rest => decide (2 ≤ rest.length) && denomHead c && rest.all denomTail

/-- `Coins.IsZero` -/
def isZero (cs : Coins) : Bool := cs.all fun c => c.2 == 0

/-- `Coins.AmountOf` (a binary search in Go; equal to the linear scan on sorted sets, and every
    set it is applied to here has passed `validate`). -/
def amountOf : Coins → Denom → Int
  | [], _ => 0
  | c :: r, d => if c.1 == d then c.2 else amountOf r d

/-- strictly ascending denoms, valid denoms, positive amounts after `lo` -/
def validFrom (lo : Denom) : Coins → Bool
  | [] => true
  | c :: r => validDenom c.1 && decide (lo < c.1) && decide (0 < c.2) && validFrom c.1 r

/-- `Coins.validate() == nil` -/
def validCoins : Coins → Bool
  | [] => true
  | c :: r => validDenom c.1 && decide (0 < c.2) && validFrom c.1 r

def removeZero (cs : Coins) : Coins := cs.filter fun c => c.2 != 0
def consNZ (c : Coin) (r : Coins) : Coins := if c.2 == 0 then r else c :: r

/-- `Coins.AddUnsafe`, the loop with the head `a :: ra` of the first set fixed; `recA` continues
    with `ra` (written this way so that the recursion is structural and evaluates in the kernel). -/
def addAux (a : Coin) (ra : Coins) (recA : Coins → Option Coins) : Coins → Option Coins
  | [] => some (removeZero (a :: ra))
  | b :: rb =>
    if a.1 < b.1 then (recA (b :: rb)).map (consNZ a)
    else if a.1 == b.1 then
      if inI64 (a.2 + b.2) then (recA rb).map (consNZ (a.1, a.2 + b.2)) else none
    else (addAux a ra recA rb).map (consNZ b)

/-- `Coins.AddUnsafe`: merge of two denom-sorted sets; `none` = the `overflow.Add` panic. -/
def addUnsafe : Coins → Coins → Option Coins
  | [], b => some (removeZero b)
  | a :: ra, b => addAux a ra (addUnsafe ra) b

/-- `Coins.Add`: `AddUnsafe`, then panic unless the result validates. -/
def add (a b : Coins) : Option Coins :=
  match addUnsafe a b with
  | none => none
  | some r => if validCoins r then some r else none

/-- `Coins.IsAllGTE` -/
def isAllGTE (a b : Coins) : Bool :=
  if b.length == 0 then true
  else if a.length == 0 then false
  else b.all fun c => !decide (c.2 > amountOf a c.1)

def insertCoin (c : Coin) : Coins → Coins
  | [] => [c]
  | x :: r => if c.1 < x.1 then c :: x :: r else x :: insertCoin c r
def sortCoins (cs : Coins) : Coins := cs.foldr insertCoin []

/-- What a `Coins` field of a transaction is after amino encode (`Coins.String`) and decode
    (`ParseCoins`): a lone zero coin or the empty set prints as "" and decodes to nil; in a
    longer list a zero coin prints as an empty piece that does not parse; negative amounts and
    invalid denoms do not parse; the rest is sorted and must validate (no duplicates).
    `none` = `TxDecodeError`.  (Op-grammar denoms start with a letter or `/`, so the printed
    amount/denom boundary is unambiguous.) -/
def decodeCoins (cs : Coins) : Option Coins :=
  if cs.length == 0 then some []
  else if cs.length == 1 && isZero cs then some []
  else if cs.any (fun c => decide (c.2 ≤ 0) || !validDenom c.1) then none
  else
    let s := sortCoins cs
    if validCoins s then some s else none

/-- The fee is a single `Coin`: zero prints as "" and decodes to the zero value (empty denom). -/
def decodeFee (c : Coin) : Option Coin :=
  if c.2 == 0 then some ("", 0)
  else if decide (c.2 < 0) || !validDenom c.1 then none
  else some c

/-! ## Sessions and spend accounting (`tm2/pkg/sdk/auth/spend.go`) -/

structure Session where
  expiresAt : Int
  limit : Coins
  period : Int
  used : Coins
  reset : Int
  paths : List String
  seq : Nat
deriving Repr, DecidableEq

inductive Err
  | txDecode | insufficientCoins | invalidCoins | unauthorized | insufficientFee | unknownAddress
  | sessionExpired | sessionNotAllowed | sessionNotFound | sessionLimit | insufficientFunds
  | unknownRequest
  | internal      -- a Go panic outside the VM (runTx's recover ⇒ `InternalError`)
  | vm            -- any error or panic raised inside a VM message (`StringError`)
deriving Repr, DecidableEq

def Err.token : Err → String
  | .txDecode => "err:TxDecodeError" | .insufficientCoins => "err:InsufficientCoinsError"
  | .invalidCoins => "err:InvalidCoinsError" | .unauthorized => "err:UnauthorizedError"
  | .insufficientFee => "err:InsufficientFeeError" | .unknownAddress => "err:UnknownAddressError"
  | .sessionExpired => "err:SessionExpiredError" | .sessionNotAllowed => "err:SessionNotAllowedError"
  | .sessionNotFound => "err:SessionNotFoundError" | .sessionLimit => "err:SessionLimitError"
  | .insufficientFunds => "err:InsufficientFundsError" | .internal => "err:InternalError"
  | .unknownRequest => "err:UnknownRequestError"
  | .vm => "err:StringError"

/-- the period-reset test shared by `DeductSessionSpend` and `CheckSessionSpend` -/
def resetDue (s : Session) (now : Int) : Bool := decide (s.period > 0) && decide (now ≥ s.reset + s.period)

/-- `DeductSessionSpend` -/
def deductSessionSpend (s : Session) (amount : Coins) (now : Int) : Except Err Session :=
  if isZero amount then .ok s
  else if s.limit.length == 0 then .error .sessionNotAllowed
  else
    let s := if resetDue s now then { s with used := [], reset := now } else s
    match add s.used amount with
    | none => .error .internal
    | some newUsed =>
      if !isAllGTE s.limit newUsed then .error .sessionNotAllowed
      else .ok { s with used := newUsed }

/-- `CheckSessionSpend` (no mutation) -/
def checkSessionSpend (s : Session) (amount : Coins) (now : Int) : Except Err Unit :=
  if isZero amount then .ok ()
  else if s.limit.length == 0 then .error .sessionNotAllowed
  else
    let spendUsed := if resetDue s now then [] else s.used
    match add spendUsed amount with
    | none => .error .internal
    | some newUsed => if !isAllGTE s.limit newUsed then .error .sessionNotAllowed else .ok ()

/-! ## World -/

inductive Acct
  | m (i : Nat)   -- master accounts (the only signers)
  | a (i : Nat)   -- plain recipients
  | k (i : Nat)   -- the address of session key i
deriving Repr, DecidableEq

abbrev SessKey := Nat × Nat   -- (master, session key)

structure World where
  now : Int
  exist : Acct → Bool
  bal : Acct → Denom → Int
  denoms : List Denom                  -- every denom ever credited (only used to print balances)
  sess : List (SessKey × Session)
  sink : Nat → Int                     -- data length of sink realm j

def t0 : Int := 1000000
def sinkBase : Int := 200

def World.init : World :=
  { now := t0, exist := fun _ => false, bal := fun _ _ => 0, denoms := [], sess := [], sink := fun _ => sinkBase }

def lookupSess (l : List (SessKey × Session)) (key : SessKey) : Option Session :=
  match l with
  | [] => none
  | (k, s) :: r => if k == key then some s else lookupSess r key

def setSess (l : List (SessKey × Session)) (key : SessKey) (s : Session) : List (SessKey × Session) :=
  match l with
  | [] => [(key, s)]
  | (k, x) :: r => if k == key then (k, s) :: r else (k, x) :: setSess r key s

def eraseSess (l : List (SessKey × Session)) (key : SessKey) : List (SessKey × Session) :=
  l.filter fun p => !(p.1 == key)

/-! ## Bank (`tm2/pkg/sdk/bank/keeper.go`) on per-denom balances

`to = none` stands for an address outside the tracked universe (realm, storage-deposit and
fee-collector addresses): the credit cannot fail there and is not recorded. -/

def insertDenom (d : Denom) : List Denom → List Denom
  | [] => [d]
  | x :: r => if d < x then d :: x :: r else if d == x then x :: r else x :: insertDenom d r

/-- `subtract` after `amt.IsValid()`: every debit is checked before any is written. -/
def debit (w : World) (a : Acct) (amt : Coins) : Except Err World :=
  if !validCoins amt then .error .invalidCoins
  else if amt.any (fun c => decide (w.bal a c.1 < c.2)) then .error .insufficientCoins
  else .ok { w with bal := fun x d => if x == a then w.bal x d - amountOf amt d else w.bal x d }

/-- `AddCoins`: validity, overflow panic, account creation on first credit. -/
def credit (w : World) (to : Option Acct) (amt : Coins) : Except Err World :=
  if !validCoins amt then .error .invalidCoins
  else match to with
    | none => .ok w
    | some a =>
      if amt.any (fun c => !inI64 (w.bal a c.1 + c.2)) then .error .internal
      else .ok { w with
        exist := fun x => x == a || w.exist x
        bal := fun x d => if x == a then w.bal x d + amountOf amt d else w.bal x d
        denoms := amt.foldl (fun ds c => insertDenom c.1 ds) w.denoms }

/-- the session hook `auth.CheckAndDeductSessionSpend(ctx, acck, addr, amount)`:
    a no-op unless `addr` is a master that signed this tx through a session. -/
def hookDeduct (auth : List (Nat × Nat)) (w : World) (a : Acct) (amount : Coins) : Except Err World :=
  match a with
  | .m i =>
    match auth.lookup i with
    | none => .ok w
    | some k =>
      match lookupSess w.sess (i, k) with
      | none => .ok w        -- unreachable: the ante loaded it and nothing in this tx can remove it
      | some s =>
        match deductSessionSpend s amount w.now with
        | .error e => .error e
        | .ok s' => .ok { w with sess := setSess w.sess (i, k) s' }
  | _ => .ok w

/-- `BankKeeper.SendCoins` (no restricted denoms): zero ⇒ nothing; hook; debit; credit. -/
def bankSend (auth : List (Nat × Nat)) (w : World) (src : Acct) (to : Option Acct) (amt : Coins) : Except Err World :=
  if isZero amt then .ok w
  else do
    let w ← hookDeduct auth w src amt
    let w ← debit w src amt
    credit w to amt

/-- `BankKeeper.SendCoinsUnrestricted` out of a tracked account (no hook). -/
def bankSendUnrestricted (w : World) (src : Acct) (to : Option Acct) (amt : Coins) : Except Err World := do
  let w ← debit w src amt
  credit w to amt

/-! ## Messages -/

inductive ExecFn | noop | fail | grow (n : Int)
deriving Repr, DecidableEq

inductive RunFn | noop | fail | pay (to : Acct) (coins : Coins)
deriving Repr, DecidableEq

inductive Msg
  | send (src : Nat) (to : Acct) (amt : Coins)
  | exec (src : Nat) (realm : Nat) (fn : ExecFn) (send : Coins)
  | run (src : Nat) (fn : RunFn) (send : Coins)
  | addpkg (src : Nat) (send : Coins)
  | create (src key : Nat) (expires period : Int) (limit : Coins) (paths : List String)
  | revoke (src key : Nat)
  | revokeall (src : Nat)
deriving Repr, DecidableEq

structure Tx where
  auth : List (Nat × Nat)   -- master ↦ session key it signs through (absent = master key)
  fee : Coin
  msgs : List Msg
deriving Repr

def Msg.signer : Msg → Nat
  | .send s _ _ | .exec s _ _ _ | .run s _ _ | .addpkg s _ | .create s _ _ _ _ _ | .revoke s _ | .revokeall s => s

def Msg.route : Msg → String
  | .send .. => "bank" | .exec .. | .run .. | .addpkg .. => "vm" | _ => "auth"

def Msg.type : Msg → String
  | .send .. => "send" | .exec .. => "exec" | .run .. => "run" | .addpkg .. => "add_package"
  | .create .. => "create_session" | .revoke .. => "revoke_session" | .revokeall .. => "revoke_all_sessions"

def realmPaths : List String :=
  ["gno.land/r/verif/sink", "gno.land/r/verif/sink/sub", "gno.land/r/verif/sinkx", "gno.land/r/other/box"]

/-- `GetPkgPath`, implemented by `MsgCall` only -/
def Msg.pkgPath : Msg → Option String
  | .exec _ r _ _ => some (realmPaths.getD r "")
  | _ => none

/-- `std.SpendEstimator.SpendForSigner` (auth messages do not implement it) -/
def Msg.spendFor (signer : Nat) : Msg → Coins
  | .send s _ amt => if s == signer then amt else []
  | .exec s _ _ snd | .run s _ snd | .addpkg s snd => if s == signer then snd else []
  | _ => []

/-- `std.Tx.GetSigners`: first appearance, duplicates dropped -/
def signersOf : List Msg → List Nat
  | [] => []
  | m :: r => m.signer :: (signersOf r).filter (· != m.signer)

/-- amino round trip of every `Coins` field of the tx (the coins inside a run script are Gno
    source text and are not decoded). -/
def Msg.decode : Msg → Option Msg
  | .send s t amt => (decodeCoins amt).map (.send s t)
  | .exec s r f snd => (decodeCoins snd).map (.exec s r f)
  | .run s f snd => (decodeCoins snd).map (.run s f)
  | .addpkg s snd => (decodeCoins snd).map (.addpkg s)
  | .create s k e p lim ps => (decodeCoins lim).map fun l => .create s k e p l ps
  | m => some m

def decodeMsgs : List Msg → Option (List Msg)
  | [] => some []
  | m :: r =>
    match m.decode, decodeMsgs r with
    | some m', some r' => some (m' :: r')
    | _, _ => none

def Tx.decode (tx : Tx) : Option Tx :=
  match decodeFee tx.fee, decodeMsgs tx.msgs with
  | some fee, some msgs => some { auth := tx.auth, fee := fee, msgs := msgs }
  | _, _ => none

/-- `Msg.ValidateBasic` on decoded messages (only the failing branches that decoding leaves
    open); `none` = valid -/
def Msg.validateBasic : Msg → Option Err
  | .send _ _ amt => if amt.length == 0 then some .insufficientCoins else none
  | .create _ _ e p _ ps =>
    if e < 0 then some .unauthorized
    else if p < 0 then some .unauthorized
    else if (ps.length : Int) > maxAllowPathsPerSession then some .unauthorized
    else none
  | _ => none

/-! ## Allow-paths (`gno.land/pkg/gnoland/allow_paths.go`, `app.go`) -/

structure Entry where
  wildcard : Bool
  route : String
  type : String
  path : String
deriving Repr

/-- `strings.Cut` on a one-byte separator: before, after, found -/
def cutAt (c : Char) : List Char → List Char × List Char × Bool
  | [] => ([], [], false)
  | x :: r => if x == c then ([], r, true) else
    match cutAt c r with
    | (a, b, f) => (x :: a, b, f)

def strCut (s : String) (c : Char) : String × String × Bool :=
  match cutAt c s.toList with
  | (a, b, f) => (String.ofList a, String.ofList b, f)

/-- `strings.HasSuffix(s, "/")` -/
def hasSuffixSlash (s : String) : Bool := s.toList.getLast? == some '/'

/-- `strings.HasPrefix(s, pre)` -/
def hasPrefix (s pre : String) : Bool := pre.toList.isPrefixOf s.toList

/-- `parseAllowPathsEntry` (`none` = error) -/
def parseEntry (s : String) : Option Entry :=
  if s == "" then none
  else if s == allowPathsWildcard then some ⟨true, "", "", ""⟩
  else
    match strCut s ':' with
    | (routeType, path, hasPath) =>
      if routeType == allowPathsWildcard then none
      else if !validSessionRouteTypes.contains routeType then none
      else
        -- slash := strings.IndexByte(routeType, '/'); Route = routeType[:slash], Type = routeType[slash+1:]
        match strCut routeType '/' with
        | (route, type, _) =>
          let e : Entry := ⟨false, route, type, ""⟩
          if !hasPath then some e
          else if routeType != pathBearingRouteType then none
          else if path == "" then none
          else if hasSuffixSlash path then none
          else some { e with path := path }

/-- `parseAllowPaths` -/
def parsePaths (ps : List String) : Option (List Entry) :=
  if ps.length == 0 then none else ps.mapM parseEntry

/-- `entryMatchesMsg` -/
def entryMatches (e : Entry) (m : Msg) : Bool :=
  if e.wildcard then true
  else if e.route != m.route || e.type != m.type then false
  else if e.path == "" then true
  else match m.pkgPath with
    | none => false
    | some p => p == e.path || hasPrefix p (e.path ++ "/")

/-- `sessionAlwaysDenied` -/
def alwaysDenied (m : Msg) : Bool := m.route == "auth" || (m.route == "vm" && m.type == "add_package")

/-- `checkSessionRestrictions` for one (msg, session) pair -/
def msgAllowed (s : Session) (m : Msg) : Bool :=
  if alwaysDenied m then false
  else match parsePaths s.paths with
    | none => false
    | some es => es.any fun e => entryMatches e m

/-! ## Handlers -/

/-- the record `handleMsgCreateSession` stores: nothing used, period starting at the block time -/
def newSession (expires period : Int) (limit : Coins) (paths : List String) (now : Int) : Session :=
  { expiresAt := expires, limit := limit, period := period, used := [], reset := now, paths := paths, seq := 0 }

/-- `handleMsgCreateSession` (check order as in the source) -/
def createSession (w : World) (src key : Nat) (expires period : Int) (limit : Coins) (paths : List String) : Except Err World :=
  if !w.exist (.m src) then .error .unknownAddress
  else if expires != 0 && expires ≤ w.now then .error .unauthorized
  else if expires != 0 && expires > w.now + maxSessionDuration then .error .unauthorized
  else if w.exist (.k key) then .error .unauthorized
  else if (lookupSess w.sess (src, key)).isSome then .error .unauthorized
  else if ((w.sess.filter fun p => p.1.1 == src).length : Int) ≥ maxSessionsPerAccount then .error .sessionLimit
  else if period > maxSpendPeriod then .error .unauthorized
  else if (paths.length : Int) > maxAllowPathsPerSession then .error .unauthorized
  else if paths.any (fun p => p == "" || hasSuffixSlash p) then .error .unauthorized
  else if (parsePaths paths).isNone then .error .unauthorized
  else .ok { w with sess := setSess w.sess (src, key) (newSession expires period limit paths w.now) }

def ugnot (n : Int) : Coins := [("ugnot", n)]

def setSink (w : World) (realm : Nat) (n : Int) : World :=
  { w with sink := fun j => if j == realm then n else w.sink j }

/-- `lockStorageDeposit`: the session hook, then the unrestricted transfer to the deposit address;
    both errors come back wrapped by `fmt.Errorf` (class `StringError`) -/
def lockDeposit (auth : List (Nat × Nat)) (w : World) (caller : Nat) (required : Int) : Except Err World :=
  match hookDeduct auth w (.m caller) (ugnot required) with
  | .error _ => .error .vm
  | .ok w =>
    match bankSendUnrestricted w (.m caller) none (ugnot required) with
    | .error _ => .error .vm
    | .ok w => .ok w

/-- `refundStorageDeposit`: unrestricted transfer back to the caller; `used` is not touched -/
def refundDeposit (w : World) (caller : Nat) (amount : Int) : Except Err World :=
  match credit w (some (.m caller)) (ugnot amount) with
  | .error _ => .error .vm
  | .ok w => .ok w

/-- `processStorageDeposit` for one sink realm whose data length goes from `cur` to `n`
    (storage diff = `n - cur` bytes, measured by the harness at start-up). -/
def storageDeposit (auth : List (Nat × Nat)) (w : World) (caller : Nat) (realm : Nat) (n : Int) : Except Err World :=
  let diff := n - w.sink realm
  if diff > 0 then
    if defaultDeposit < diff * storagePrice then .error .vm
    else lockDeposit auth (setSink w realm n) caller (diff * storagePrice)
  else if diff < 0 then refundDeposit (setSink w realm n) caller ((-diff) * storagePrice)
  else .ok (setSink w realm n)

/-- one message handler (`bank`, `vm`, `auth` routes) -/
def execMsg (auth : List (Nat × Nat)) (w : World) : Msg → Except Err World
  | .send src to amt => bankSend auth w (.m src) (some to) amt
  | .exec src realm fn snd => do
    -- vm.Call: Send first (errors are returned as they are), then the function, then the deposit
    let w ← bankSend auth w (.m src) none snd
    match fn with
    | .noop => .ok w
    | .fail => .error .vm
    | .grow n => storageDeposit auth w src realm n
  | .run src fn snd => do
    -- vm.Run: the ephemeral package address is the caller's own address
    let w ← bankSend auth w (.m src) (some (.m src)) snd
    match fn with
    | .noop => .ok w
    | .fail => .error .vm
    | .pay to coins =>
      -- banker.SendCoins → bank.SendCoins; every failure is a Go panic inside the VM
      match bankSend auth w (.m src) (some to) coins with
      | .error _ => .error .vm
      | .ok w => .ok w
  | .addpkg _ _ => .error .vm     -- never reached: denied for sessions, excluded by the op grammar otherwise
  | .create src key e p lim ps => createSession w src key e p lim ps
  | .revoke src key =>
    if (lookupSess w.sess (src, key)).isNone then .error .sessionNotFound
    else .ok { w with sess := eraseSess w.sess (src, key) }
  | .revokeall src => .ok { w with sess := w.sess.filter fun p => !(p.1.1 == src) }

/-- `runMsgs`: stop at the first failing message -/
def execMsgs (auth : List (Nat × Nat)) (w : World) : List Msg → Except Err World
  | [] => .ok w
  | m :: r => match execMsg auth w m with
    | .error e => .error e
    | .ok w => execMsgs auth w r

/-! ## Ante (`auth.NewAnteHandler` + `checkSessionRestrictions`) -/

/-- phase 1 for one signer: the account exists; a session signature names a stored, unexpired
    session.  `none` = resolved. -/
def resolveSigner (auth : List (Nat × Nat)) (w : World) (i : Nat) : Option Err :=
  if !w.exist (.m i) then some .unknownAddress
  else match auth.lookup i with
    | none => none
    | some k =>
      match lookupSess w.sess (i, k) with
      | none => some .unauthorized
      | some s => if s.expiresAt > 0 && w.now ≥ s.expiresAt then some .sessionExpired else none

/-- phase 2a total: fee, then every message's `SpendForSigner(first signer)`; `none` = `Coins.Add` panic -/
def precheckTotal (fee : Coin) (first : Nat) : List Msg → Option Coins → Option Coins
  | [], acc => acc
  | m :: r, acc => precheckTotal fee first r (acc.bind fun t => add t (m.spendFor first))

/-- phase 2a: only when the first signer signs through a session -/
def precheck (w : World) (tx : Tx) (first : Nat) : Option Err :=
  match tx.auth.lookup first with
  | none => none
  | some k =>
    match lookupSess w.sess (first, k) with
    | none => none
    | some s =>
      match precheckTotal tx.fee first tx.msgs (if tx.fee.2 == 0 then some [] else add [] [tx.fee]) with
      | none => some .internal
      | some total =>
        match checkSessionSpend s total w.now with
        | .error e => some e
        | .ok () => none

/-- phase 2b: the fee counts against the first signer's session (`DeductSessionSpend`), then
    `DeductFees` takes it from the master (balance check, `SendCoinsUnrestricted`). -/
def payFee (w : World) (tx : Tx) (first : Nat) : Except Err World :=
  if tx.fee.2 == 0 then .ok w
  else
    match hookDeduct tx.auth w (.m first) [tx.fee] with
    | .error e => .error e
    | .ok w =>
      if w.bal (.m first) tx.fee.1 < tx.fee.2 then .error .insufficientFunds
      else bankSendUnrestricted w (.m first) none [tx.fee]

/-- phase 3 for one signer: the signature verifies (harness contract); the sequence of the
    signing account moves on — for a session signer that is the session record. -/
def bumpSeq (auth : List (Nat × Nat)) (w : World) (i : Nat) : World :=
  match auth.lookup i with
  | none => w
  | some k => match lookupSess w.sess (i, k) with
    | none => w
    | some s => { w with sess := setSess w.sess (i, k) { s with seq := s.seq + 1 } }

/-- gno.land `checkSessionRestrictions` for one message -/
def restrictionOK (auth : List (Nat × Nat)) (w : World) (m : Msg) : Bool :=
  match auth.lookup m.signer with
  | none => true
  | some k =>
    match lookupSess w.sess (m.signer, k) with
    | none => true
    | some s => msgAllowed s m

def ante (w : World) (tx : Tx) : Except Err World :=
  let signers := signersOf tx.msgs
  let first := signers.headD 0
  -- tx.ValidateBasic: a zero fee has lost its denom in the encoding
  if !(validDenom tx.fee.1) then .error .insufficientFee
  else
    -- phase 1
    match signers.findSome? (resolveSigner tx.auth w) with
    | some e => .error e
    | none =>
      -- phase 2a
      match precheck w tx first with
      | some e => .error e
      | none =>
        -- phase 2b
        match payFee w tx first with
        | .error e => .error e
        | .ok w =>
          -- phase 3
          let w := signers.foldl (bumpSeq tx.auth) w
          -- gno.land: checkSessionRestrictions
          if tx.msgs.all (restrictionOK tx.auth w) then .ok w else .error .sessionNotAllowed

/-! ## runTx -/

/-- `baseapp.runTx` in DeliverTx mode: result class and the state that is kept. -/
def runTx (w : World) (raw : Tx) : World × Except Err Unit :=
  match raw.decode with
  | none => (w, .error .txDecode)
  | some tx =>
    -- validateBasicTxMsgs: at least one message, then every message's ValidateBasic
    if tx.msgs.isEmpty then (w, .error .unknownRequest) else
    match tx.msgs.findSome? Msg.validateBasic with
    | some e => (w, .error e)
    | none =>
      match ante w tx with
      | .error e => (w, .error e)                       -- ante abort: nothing is written
      | .ok wa =>
        match execMsgs tx.auth wa tx.msgs with
        | .error e => (wa, .error e)                    -- WriteCheckpoint: only the ante writes
        | .ok wm => (wm, .ok ())

/-- the faucet's transfer (a master-signed `bank.MsgSend` from outside the tracked universe) -/
def fund (w : World) (a : Acct) (amt : Coins) : World :=
  match credit w (some a) amt with
  | .ok w' => w'
  | .error _ => w

inductive Op
  | time (t : Int)
  | fund (a : Acct) (amt : Coins)
  | tx (t : Tx)

def step (w : World) : Op → World
  | .time t => { w with now := t }
  | .fund a amt => fund w a amt
  | .tx t => (runTx w t).1

def run (w : World) (ops : List Op) : World := ops.foldl step w

end GnoVerif.C16
