/-
C08 — strings, denominations and `std.Coins` arithmetic as the banker path uses them.

Mirrors, line by line:
  * tm2/pkg/std/coin.go        `validDenom`/`ValidateDenom`, `Coins.validate`, `IsZero`,
                               `AddUnsafe`, `Add`, `AmountOf`, `IsAllGTE`, `IsRealmDenom`
  * gnovm/stdlibs/chain/banker/banker.gno   `assertCoinDenom`, `isValidBaseDenom`

Go strings are byte strings; here a string is a `List Char`, one `Char` per byte
(the driver maps byte b to `Char.ofNat b`).  Core Lean only.
-/
namespace GnoVerif.C08

abbrev Str := List Char

/-- string literal → model string (runtime conversion; proofs use `S!"…"`) -/
def lit (s : String) : Str := s.toList

/- `S!"abc"` expands AT ELABORATION TIME to the explicit list `['a','b','c']`, so that
   definitions and examples never make the kernel evaluate `String.toList`. -/
open Lean in
macro "S!" s:str : term => do
  let elems : Array (TSyntax `term) := s.getString.toList.toArray.map fun c => ⟨Syntax.mkCharLit c⟩
  `([$elems,*])

/-- `strings.Compare(a, b) < 0`, bytewise. -/
def strLt : Str → Str → Bool
  | [], [] => false
  | [], _ :: _ => true
  | _ :: _, [] => false
  | a :: as, b :: bs => if a.toNat < b.toNat then true else if b.toNat < a.toNat then false else strLt as bs

/-- `strings.HasPrefix(s, p)` -/
def hasPrefix : Str → Str → Bool
  | _, [] => true
  | [], _ :: _ => false
  | c :: s, d :: p => c == d && hasPrefix s p

def isLower (c : Char) : Bool := decide ('a' ≤ c) && decide (c ≤ 'z')
def isDigit (c : Char) : Bool := decide ('0' ≤ c) && decide (c ≤ '9')

/-! ## denominations -/

def maxInt64 : Int := 9223372036854775807

/-- MaxDenomLength = len("/") + pkgPathLimit(256) + len(":") + maxBaseDenomLength(16). -/
def maxDenomLength : Nat := 274

def leadOk (c : Char) : Bool := isLower c || c == '/'
def contOk (c : Char) : Bool :=
  isLower c || isDigit c || c == '_' || c == '.' || c == ':' || c == '/' || c == '-'

/-- `ValidateDenom(d) == nil`: length ≤ 274, at least three bytes, first a lowercase letter or slash,
    the rest from lowercase, digits, underscore, dot, colon, slash, dash. -/
def validDenom (d : Str) : Bool :=
  decide (d.length ≤ maxDenomLength) &&
  match d with
  | [] => false
  | c :: rest => leadOk c && decide (2 ≤ rest.length) && rest.all contOk

/-- `std.IsRealmDenom`: a leading slash. -/
def isRealmDenom : Str → Bool
  | '/' :: _ => true
  | _ => false

/-- banker.gno `isValidBaseDenom`: 3..16 bytes, a lowercase letter followed by
    lowercase letters or digits. -/
def validBaseDenom (b : Str) : Bool :=
  decide (3 ≤ b.length) && decide (b.length ≤ 16) &&
  match b with
  | [] => false
  | c :: rest => isLower c && rest.all (fun x => isLower x || isDigit x)

/-- the prefix `assertCoinDenom` binds to a realm: "/" + pkgPath + ":" -/
def denomPrefix (pkgPath : Str) : Str := '/' :: (pkgPath ++ [':'])

/-- `chain.CoinDenom(pkgPath, base)` -/
def coinDenom (pkgPath base : Str) : Str := denomPrefix pkgPath ++ base

inductive DenomErr | badPrefix | badBase
  deriving DecidableEq, Repr

/-- banker.gno `assertCoinDenom(denom, pkgPath)`. -/
def assertCoinDenom (denom pkgPath : Str) : Except DenomErr Unit :=
  if !hasPrefix denom (denomPrefix pkgPath) then .error .badPrefix
  else if !validBaseDenom (denom.drop (denomPrefix pkgPath).length) then .error .badBase
  else .ok ()

/-- the denominations realm `pkgPath` can issue or remove -/
def issuable (pkgPath denom : Str) : Bool := (assertCoinDenom denom pkgPath).isOk

/-! ## coins -/

structure Coin where
  denom : Str
  amount : Int
deriving DecidableEq, Repr

abbrev Coins := List Coin

/-- the tail loop of `Coins.validate` -/
def validFrom (low : Str) : Coins → Bool
  | [] => true
  | c :: rest => validDenom c.denom && strLt low c.denom && decide (0 < c.amount) && validFrom c.denom rest

/-- `Coins.IsValid()`: valid denoms, strictly ascending, positive amounts. -/
def coinsValid : Coins → Bool
  | [] => true
  | c :: rest => validDenom c.denom && decide (0 < c.amount) && validFrom c.denom rest

/-- `Coins.IsZero()` -/
def coinsIsZero (cs : Coins) : Bool := cs.all (fun c => c.amount == 0)

def removeZero (cs : Coins) : Coins := cs.filter (fun c => c.amount != 0)

def inI64 (x : Int) : Bool := decide (-maxInt64 - 1 ≤ x) && decide (x ≤ maxInt64)

/-- `Coins.AddUnsafe`, inner loop: the head `a` of the first set (tail `ra`) against the second
    set; `k` continues with the first set advanced (`k = addUnsafe ra`).  `none` = the
    `overflow.Add` panic of `Coin.AddUnsafe`. -/
def mergeInto (a : Coin) (ra : Coins) (k : Coins → Option Coins) : Coins → Option Coins
  | [] => some (removeZero (a :: ra))
  | b :: rb =>
    if strLt a.denom b.denom then
      (k (b :: rb)).map (fun rest => if a.amount = 0 then rest else a :: rest)
    else if a.denom = b.denom then
      if inI64 (a.amount + b.amount) then
        (k rb).map (fun rest =>
          if a.amount + b.amount = 0 then rest else ⟨a.denom, a.amount + b.amount⟩ :: rest)
      else none
    else
      (mergeInto a ra k rb).map (fun rest => if b.amount = 0 then rest else b :: rest)

/-- `Coins.AddUnsafe`: the merge over two (supposedly sorted) sets: the smaller denomination
    first, equal denominations added, zero results and zero coins dropped. -/
def addUnsafe : Coins → Coins → Option Coins
  | [], b => some (removeZero b)
  | a :: ra, b => mergeInto a ra (addUnsafe ra) b

/-- `Coins.Add`: AddUnsafe, panic unless the result validates. -/
def coinsAdd (a b : Coins) : Option Coins :=
  match addUnsafe a b with
  | none => none
  | some r => if coinsValid r then some r else none

/-- `Coins.AmountOf` on a validated (strictly sorted) receiver: the one match. -/
def amountOf (cs : Coins) (d : Str) : Int :=
  match cs.find? (fun c => c.denom == d) with
  | some c => c.amount
  | none => 0

/-- `a.IsAllGTE(b)` for validated `a`. -/
def isAllGTE (a b : Coins) : Bool :=
  if b.isEmpty then true
  else if a.isEmpty then false
  else b.all (fun c => decide (c.amount ≤ amountOf a c.denom))

end GnoVerif.C08
