/-!
# C33 — crash recovery of a validator: the durable world, the order of durable
writes, and the restart procedure (model)

Mirrors, for a single-validator node,

* `tm2/pkg/bft/consensus/state.go` `finalizeCommit`: `SaveBlock` → WAL
  `MetaMessage{Height: h+1}` (fsync) → `ApplyBlock`;
* `tm2/pkg/bft/store/store.go` `SaveBlock`: meta, parts, commit, seen commit are
  separate `Set`s; the `blockStore` JSON record (`SetSync`) is what `Height()`
  is read from after a restart;
* `tm2/pkg/bft/state/execution.go` `ApplyBlock`: ABCI responses → tx index →
  application `Commit` → `SaveState` (params, validators, then the state record,
  `SetSync`);
* `tm2/pkg/bft/node/node.go` `NewNode`: genesis doc / genesis state, handshake,
  reload of the state, then `ConsensusState.OnStart`: WAL open (an empty WAL gets
  `MetaMessage{Height: 0}`), `catchupReplay(state.LastBlockHeight+1)`;
* `tm2/pkg/bft/consensus/replay.go` `Handshaker.Handshake/ReplayBlocks/
  replayBlocks/replayBlock` — the case table on (store, state, app) heights,
  in the order the code tests the cases, with its panics and errors;
* the privval sign state as `C34` proves it: the last signed height/round/step,
  never lowered, re-signing at the same H/R/S only for the same message.

Quirk mirrored on purpose: `finalizeCommit(h)` writes the marker `h+1`,
`catchupReplay(H)` looks for the marker `H`, but a fresh WAL starts with the
marker `0` — so the marker `1` never exists.
Core Lean only.
-/
namespace GnoVerif.C33

/-! ## The application (deterministic) -/

structure Tx where
  v : Nat
  size : Nat
deriving DecidableEq, Repr, Inhabited

def mix (h : Nat) (t : Tx) : Nat :=
  (h * 1099511628211 + 31 * t.v + t.size + 1) % 18446744073709551616

/-- application hash after executing `txs` from hash `h` (the ledger app of the harness) -/
def execTxs (h : Nat) (txs : List Tx) : Nat := txs.foldl mix h

/-- a stored block: its transactions and its header's AppHash (= application hash after the previous block) -/
structure Block where
  txs : List Tx
  appHash : Nat
deriving DecidableEq, Repr, Inhabited

/-! ## The durable world -/

/-- last signed height / round / step of the privval sign-state file (step 1 proposal, 2 prevote, 3 precommit) -/
structure HRS where
  h : Nat
  r : Nat
  s : Nat
deriving DecidableEq, Repr, Inhabited

def HRS.le (a b : HRS) : Bool :=
  a.h < b.h || (a.h == b.h && (a.r < b.r || (a.r == b.r && a.s ≤ b.s)))

def HRS.max (a b : HRS) : HRS := if a.le b then b else a

/-- records of the consensus WAL that matter for recovery -/
inductive Rec where
  | mark (n : Nat)                             -- `#{"h":"n"}`
  | prop (h r : Nat)                           -- own proposal
  | part (h r : Nat)                           -- a block part of it
  | vote (h r : Nat) (pre : Bool) (nil : Bool) -- own prevote (`pre`) / precommit, for nil or for the block
  | torn                                       -- a partial line: the process died while writing a record
deriving DecidableEq, Repr, Inhabited

/-- what `node.NewNode` (genesis, handshake) reads and writes: the three databases -/
structure Core where
  /-- block store as `Height()` sees it after a restart: block `i+1` at index `i` -/
  blocks : List Block
  /-- state DB: genesis doc record present -/
  gen : Bool
  /-- state DB: state record present -/
  stRec : Bool
  /-- state record carries the application's version (written by the handshake) -/
  ver : Bool
  /-- `state.LastBlockHeight`, `state.AppHash` -/
  st : Nat
  stHash : Nat
  /-- heights whose ABCI responses record exists -/
  resp : List Nat
  /-- application: committed height and hash -/
  app : Nat
  appHash : Nat
deriving Repr, Inhabited

/-- the whole durable world: the databases, the consensus WAL, the privval sign state -/
structure Disk extends Core where
  /-- `SaveBlock` writes for height `blocks.length+1` that precede the height record -/
  pend : Nat
  wal : List Rec
  pv : HRS
deriving Repr, Inhabited

def Core.empty : Core :=
  { blocks := [], gen := false, stRec := false, ver := false, st := 0, stHash := 0,
    resp := [], app := 0, appHash := 0 }

def Disk.empty : Disk := { toCore := Core.empty, pend := 0, wal := [], pv := ⟨0, 0, 0⟩ }

def Core.store (c : Core) : Nat := c.blocks.length
def Disk.store (d : Disk) : Nat := d.blocks.length

/-- every durable step, named as the harness observes it -/
inductive Ev where
  | pvP (h r : Nat)                 -- privval: sign proposal
  | pvV (h r : Nat) (nil : Bool)    -- privval: sign prevote
  | pvC (h r : Nat) (nil : Bool)    -- privval: sign precommit
  | wP (h r : Nat) | wB (h r : Nat) | wV (h r : Nat) (nil : Bool) | wC (h r : Nat) (nil : Bool)
  | wE (n : Nat)                    -- WAL marker n
  | bsH | bsP | bsC | bsS           -- block store: meta, part, commit, seen commit
  | bsJ (b : Block)                 -- block store: height record
  | bsF                             -- block store: flush
  | stG                             -- state DB: genesis doc
  | stR (h : Nat)                   -- state DB: ABCI responses of height h
  | stT | stP | stV                 -- state DB: tx index entry, params info, validators info
  | stS (h hash : Nat) (ver : Bool) -- state DB: the state record
  | apC | apK                       -- application: commit starts / a key-value write
  | apS (h hash : Nat)              -- application: its state record
deriving DecidableEq, Repr, Inhabited

def applyCore (c : Core) : Ev → Core
  | .bsJ b => { c with blocks := c.blocks ++ [b] }
  | .stG => { c with gen := true }
  | .stR h => { c with resp := h :: c.resp }
  | .stS h hash v => { c with stRec := true, st := h, stHash := hash, ver := v }
  | .apS h hash => { c with app := h, appHash := hash }
  | _ => c

def apply (d : Disk) (e : Ev) : Disk :=
  { toCore := applyCore d.toCore e
    pend := match e with
      | .bsH | .bsP | .bsC | .bsS => d.pend + 1
      | .bsJ _ => 0
      | _ => d.pend
    wal := match e with
      | .wP h r => d.wal ++ [.prop h r]
      | .wB h r => d.wal ++ [.part h r]
      | .wV h r n => d.wal ++ [.vote h r true n]
      | .wC h r n => d.wal ++ [.vote h r false n]
      | .wE n => d.wal ++ [.mark n]
      | _ => d.wal
    pv := match e with
      | .pvP h r => d.pv.max ⟨h, r, 1⟩
      | .pvV h r _ => d.pv.max ⟨h, r, 2⟩
      | .pvC h r _ => d.pv.max ⟨h, r, 3⟩
      | _ => d.pv }

def applyAllCore (c : Core) (evs : List Ev) : Core := evs.foldl applyCore c
def applyAll (d : Disk) (evs : List Ev) : Disk := evs.foldl apply d

/-! ## One height of a running single-validator node -/

/-- number of parts of a block (65536-byte parts; header, commit and framing < 2000 bytes) -/
def nparts (txs : List Tx) : Nat := ((txs.map (·.size)).sum + 2000) / 65536 + 1

/-- voting at height `h`: `k` rounds without a proposal (nil prevote, nil precommit), then round `k` -/
def votingEvs (h k p : Nat) : List Ev :=
  (List.range k).flatMap (fun r => [.pvV h r true, .wV h r true, .pvC h r true, .wC h r true]) ++
  [.pvP h k, .wP h k] ++ List.replicate p (.wB h k) ++
  [.pvV h k false, .wV h k false, .pvC h k false, .wC h k false]

/-- `ApplyBlock` of block `b` at height `h` on the real application currently at hash `cur` -/
def applyEvs (h : Nat) (b : Block) (cur : Nat) (ver : Bool) : List Ev :=
  let nh := execTxs cur b.txs
  [.stR h] ++ List.replicate b.txs.length .stT ++ [.apC] ++ List.replicate b.txs.length .apK ++
  [.apS h nh, .stP, .stV, .stS h nh ver]

/-- `finalizeCommit`: SaveBlock, WAL marker, ApplyBlock — in the code's order -/
def finalizeEvs (h : Nat) (b : Block) (cur : Nat) (ver : Bool) : List Ev :=
  [.bsH] ++ List.replicate (nparts b.txs) .bsP ++ [.bsC, .bsS, .bsJ b, .bsF, .wE (h + 1)] ++
  applyEvs h b cur ver

/-- all durable steps of height `d.st+1` when the node proposes `txs` and commits in round `k` -/
def heightEvs (d : Disk) (txs : List Tx) (k : Nat) : List Ev :=
  let h := d.st + 1
  let b : Block := ⟨txs, d.stHash⟩
  votingEvs h k (nparts txs) ++ finalizeEvs h b d.appHash d.ver

/-! ## Restart: node.NewNode (genesis, handshake) -/

inductive HsErr where
  | appAhead       -- AppBlockHeightTooHighError
  | stateAhead     -- panic "StateBlockHeight > StoreBlockHeight"
  | storeAhead     -- panic "StoreBlockHeight > StateBlockHeight + 1"
  | appHash        -- panic: app hash differs from the state's / a block's
  | noResp         -- LoadABCIResponses: none for that height
  | noBlock        -- block missing in the store
  | invalidBlock   -- ApplyBlock: ValidateBlock failed (header AppHash ≠ state AppHash)
  | uncovered      -- panic "uncovered case!"
  | noSeenCommit   -- NewConsensusState → reconstructLastCommit: no seen commit for the state height
deriving DecidableEq, Repr, Inhabited

def HsErr.isPanic : HsErr → Bool
  | .stateAhead | .storeAhead | .appHash | .uncovered | .noSeenCommit => true
  | _ => false

def blockAt (d : Core) (i : Nat) : Option Block := if i = 0 then none else d.blocks[i - 1]?

/-- `sm.SaveState` of a state whose LastBlockHeight is `s` (InitialHeight = 1) -/
def saveStateEvs (s hash : Nat) (ver : Bool) : List Ev :=
  (if s + 1 = 1 then [.stV, .stP] else [.stP]) ++ [.stV, .stS s hash ver]

/-- the loop of `replayBlocks`: ExecCommitBlock for the blocks `i … last` on the real
application; `first` = the local `appHash` variable is still empty. -/
def replayLoop (d : Core) : (fuel i last cur : Nat) → (first : Bool) → Except HsErr (List Ev × Nat)
  | 0, _, _, cur, _ => .ok ([], cur)
  | fuel + 1, i, last, cur, first =>
    if last < i then .ok ([], cur) else
    match blockAt d i with
    | none => .error .noBlock
    | some b =>
      -- `if len(appHash) > 0 { assertAppHashEqualsOneFromBlock(appHash, block) }`
      if !first && cur != 0 && cur != b.appHash then .error .appHash else
      let nh := execTxs cur b.txs
      let evs := [Ev.apC] ++ List.replicate b.txs.length Ev.apK ++ [Ev.apS i nh]
      match replayLoop d fuel (i + 1) last nh false with
      | .error e => .error e
      | .ok (rest, fin) => .ok (evs ++ rest, fin)

/-- `ApplyBlock` of block `b` at height `h` on the mock application, which answers from the saved
ABCI responses and returns the hash `cur` the real application reported in Info -/
def mockApplyEvs (h : Nat) (b : Block) (cur : Nat) (ver : Bool) : List Ev :=
  [.stR h] ++ List.replicate b.txs.length .stT ++ [.stP, .stV, .stS h cur ver]

/-- InitChain when the application is at height 0: the responses of "height 0" are saved, and the
state once more if no block was applied yet -/
def initChainEvs (d : Core) : List Ev :=
  if d.app = 0 then [.stR 0] ++ (if d.st < 1 then saveStateEvs d.st d.stHash true else []) else []

/-- `Handshaker.replayBlock` (ApplyBlock) of the block at the store height, on the real
application (`mock = false`) or on the mock application answering from the saved responses -/
def replayLast (d : Core) (stHash cur : Nat) (mock : Bool) : Except HsErr (List Ev × Nat) :=
  let h := d.store
  match blockAt d h with
  | none => .error .noBlock
  | some b =>
    if b.appHash != stHash then .error .invalidBlock else
    if mock then
      .ok (mockApplyEvs h b cur d.ver, cur)
    else
      .ok (applyEvs h b cur d.ver, execTxs cur b.txs)

/-- `Handshaker.ReplayBlocks` after Info returned (app height, app hash) = (`d.app`, `d.appHash`);
`ver` = the state record already carries the app version. Returns the durable steps it performs. -/
def replayBlocksEvs (d : Core) : Except HsErr (List Ev) :=
  let storeH := d.store
  let stateH := d.st
  let appH := d.app
  let initEvs : List Ev := initChainEvs d
  if storeH = 0 then
    if d.appHash != d.stHash then .error .appHash else .ok initEvs
  else if storeH < appH then .error .appAhead
  else if storeH < stateH then .error .stateAhead
  else if storeH > stateH + 1 then .error .storeAhead
  else if storeH = stateH then
    if appH < storeH then
      match replayLoop d (storeH + 1) (Nat.max 1 (appH + 1)) storeH d.appHash true with
      | .error e => .error e
      | .ok (evs, fin) => if fin != d.stHash then .error .appHash else .ok (initEvs ++ evs)
    else -- appH = storeH
      if d.appHash != d.stHash then .error .appHash else .ok initEvs
  else -- storeH = stateH + 1
    if appH < stateH then
      match replayLoop d (storeH + 1) (Nat.max 1 (appH + 1)) (storeH - 1) d.appHash true with
      | .error e => .error e
      | .ok (evs, fin) =>
        match replayLast d d.stHash fin false with
        | .error e => .error e
        | .ok (evs2, _) => .ok (initEvs ++ evs ++ evs2)
    else if appH = stateH then
      match replayLast d d.stHash d.appHash false with
      | .error e => .error e
      | .ok (evs, _) => .ok (initEvs ++ evs)
    else if appH = storeH then
      if !d.resp.contains storeH then .error .noResp else
      match replayLast d d.stHash d.appHash true with
      | .error e => .error e
      | .ok (evs, _) => .ok (initEvs ++ evs)
    else .error .uncovered

/-- durable steps of `node.NewNode` before the handshake's block replay: genesis doc, genesis
state, the app version -/
def preludeEvs (d : Core) : List Ev :=
  (if d.gen then [] else [.stG]) ++
  (if d.stRec then [] else saveStateEvs 0 0 false) ++
  (if d.stRec && d.ver then [] else saveStateEvs d.st d.stHash true)

/-- all durable steps of `node.NewNode` from the world `d` (the handshake), or its error -/
def handshakeEvs (d : Core) : Except HsErr (List Ev) :=
  let pre := preludeEvs d
  match replayBlocksEvs (applyAllCore d pre) with
  | .error e => .error e
  | .ok evs => .ok (pre ++ evs)

/-- `node.NewNode` as a whole: the handshake, then `NewConsensusState` → `reconstructLastCommit`,
which needs the seen commit of the state height (saved with the block) -/
def newNode (d : Core) : Except HsErr (List Ev × Core) :=
  match handshakeEvs d with
  | .error e => .error e
  | .ok evs =>
    let d' := applyAllCore d evs
    if 1 ≤ d'.st ∧ d'.store < d'.st then .error .noSeenCommit else .ok (evs, d')

/-- the three heights agree, the two hashes agree -/
def Core.synced (d : Core) : Prop :=
  d.store = d.st ∧ d.app = d.st ∧ d.appHash = d.stHash

instance (d : Core) : Decidable d.synced := by unfold Core.synced; exact inferInstance

/-- application hash after executing the blocks in order from the empty application -/
def chainHash (bs : List Block) : Nat := bs.foldl (fun h b => execTxs h b.txs) 0

/-! ## Restart: ConsensusState.OnStart (WAL) and liveness of a single validator -/

def hasMark (w : List Rec) (n : Nat) : Bool := w.contains (.mark n)

/-- `OpenWAL`: an empty WAL gets the marker 0 -/
def walOpenEvs (d : Disk) : List Ev := if d.wal.isEmpty then [.wE 0] else []

/-- does `catchupReplay(H)` replay the messages of height `H`? (the marker `H+1` is absent on
every world the handshake produced from a crash, see `Proofs`) -/
def replays (d : Disk) : Bool := hasMark d.wal (d.st + 1) && !hasMark d.wal (d.st + 2)

/-- A single validator that restarts at height `H = st+1`, round 0:
with WAL replay it is put back where it was; without, it starts the height afresh and its privval
lets it sign again only if it signed nothing at `H` beyond the round-0 proposal. -/
def live (d : Disk) : Bool := replays d || d.pv.le ⟨d.st + 1, 0, 1⟩

/-! ### a record torn by the kill

A kill in the middle of a write leaves a partial last line.  `WALReader` treats a partial LAST line
as the end of the log (C38), so the first restart does not see it — but the restarted node appends
to the same file, the partial line and the next record become one undecodable line, and the next
`catchupReplay` of that height returns a `DataCorruptionError`, which `OnStart` returns: the node
does not start until the WAL is repaired by hand. -/

/-- the world a kill leaves when it falls into the write of the next WAL record -/
def tornKill (d : Disk) : Disk := { d with wal := d.wal ++ [.torn] }

/-- no partial line is followed by another record -/
def noTornInside : List Rec → Bool
  | [] => true
  | [_] => true
  | .torn :: _ :: _ => false
  | _ :: rest => noTornInside rest

/-- the records after the (first) marker `n`, if it exists -/
def afterMark : List Rec → Nat → Option (List Rec)
  | [], _ => none
  | r :: w, n => if r = .mark n then some w else afterMark w n

/-- `ConsensusState.OnStart` at height `st+1`: `catchupReplay` must be able to decode every record
after the marker of that height (a missing marker only means: nothing is replayed) -/
def startOK (d : Disk) : Bool :=
  match afterMark d.wal (d.st + 1) with
  | none => true
  | some seg => noTornInside seg

/-- the height the restarted node resumes is untouched: nothing signed, nothing logged for it -/
def freshHeight (d : Disk) : Bool :=
  d.pv.h ≤ d.st && d.wal.all (fun r => match r with
    | .mark _ | .torn => true
    | .prop h _ | .part h _ | .vote h _ _ _ => h ≤ d.st)

/-! ## Scripts: the chain the harness drives

height 1 is the (empty) genesis proof block; the i-th transaction (i ≥ 1) is proposed alone at
height 2i; height 2i+1 is the empty proof block for the changed application hash. -/

def txsAt (script : List Tx) (h : Nat) : List Tx :=
  if h ≥ 2 ∧ h % 2 = 0 then (script[h / 2 - 1]?).toList else []

def lastHeight (script : List Tx) : Nat := 2 * script.length + 1

/-- nil rounds before the committing round, per height -/
def roundsAt (rounds : List (Nat × Nat)) (h : Nat) : Nat :=
  match rounds.find? (·.1 == h) with
  | some (_, k) => k
  | none => 0

/-- durable steps of an uninterrupted run over the heights `d.st+1 … last` -/
def runEvs (script : List Tx) (rounds : List (Nat × Nat)) : (fuel : Nat) → Disk → List (Nat × Ev)
  | 0, _ => []
  | fuel + 1, d =>
    let h := d.st + 1
    if h > lastHeight script then [] else
    let evs := heightEvs d (txsAt script h) (roundsAt rounds h)
    evs.map (fun e => (h, e)) ++ runEvs script rounds fuel (applyAll d evs)

/-! ## A boot: everything a process does between its start and its death

Steps are labelled as the harness labels them: phase (`true` = inside `node.NewNode`), and the
height being worked on (state height + 1; for application steps application height + 1). -/

def evLabel (d : Disk) : Ev → Nat
  | .apC | .apK | .apS _ _ => d.app + 1
  | _ => d.st + 1

def labelFrom (d : Disk) : List Ev → List (Nat × Ev)
  | [] => []
  | e :: rest => (evLabel d e, e) :: labelFrom (apply d e) rest

structure LEv where
  hs : Bool
  h : Nat
  ev : Ev
deriving Repr, Inhabited

/-- the labelled durable steps of a process started on `d` that lives to the end of the script;
`rounds` only applies to the first process of a chain -/
def bootEvs (script : List Tx) (rounds : List (Nat × Nat)) (d : Disk) : Except HsErr (List LEv × Disk) :=
  match newNode d.toCore with
  | .error e => .error e
  | .ok (hsEvs, _) =>
    let d1 := applyAll d hsEvs
    let hsL := (labelFrom d hsEvs).map (fun p => LEv.mk true p.1 p.2)
    let openL := (walOpenEvs d1).map (fun e => LEv.mk false (d1.st + 1) e)
    let d2 := applyAll d1 (walOpenEvs d1)
    let csL := (runEvs script rounds (lastHeight script + 1) d2).map (fun p => LEv.mk false p.1 p.2)
    .ok (hsL ++ openL ++ csL, d1)

/-! ## Histories of kills and restarts (the quantifier of the property)

`Heights d run`: a running node whose durable world is `d` (store, state and application agree)
performs `run`: any number of heights, each with arbitrary transactions and any number of rounds.
`Proc d evs`: a process started on the world `d` performed exactly the durable steps `evs`
before it was killed (at any point: inside the handshake, while the WAL is opened, at any step
of any height) — or it stalled after its start.  A height a restarted process resumes in the
middle is traced like a fresh one (its re-signing and re-logging leave the same sign state and
the same markers; the correspondence does not address the individual steps of such a height).
`Reach d`: `d` is the durable world after some history of kills and restarts from genesis. -/

inductive Heights : Disk → List Ev → Prop
  | done (d : Disk) : Heights d []
  | height (d : Disk) (txs : List Tx) (k : Nat) (rest : List Ev) :
      Heights (applyAll d (heightEvs d txs k)) rest → Heights d (heightEvs d txs k ++ rest)

inductive Proc (d : Disk) : List Ev → Prop
  | handshake (hsEvs : List Ev) (c1 : Core) (pre : List Ev) :
      newNode d.toCore = .ok (hsEvs, c1) → pre <+: hsEvs → Proc d pre
  | running (hsEvs : List Ev) (c1 : Core) (run pre : List Ev) :
      newNode d.toCore = .ok (hsEvs, c1) →
      live (applyAll d hsEvs) = true →
      Heights (applyAll (applyAll d hsEvs) (walOpenEvs (applyAll d hsEvs))) run →
      pre <+: hsEvs ++ walOpenEvs (applyAll d hsEvs) ++ run → Proc d pre
  | stalled (hsEvs : List Ev) (c1 : Core) (pre : List Ev) :
      newNode d.toCore = .ok (hsEvs, c1) →
      live (applyAll d hsEvs) = false →
      pre <+: hsEvs ++ walOpenEvs (applyAll d hsEvs) → Proc d pre

inductive Reach : Disk → Prop
  | genesis : Reach Disk.empty
  | kill (d : Disk) (evs : List Ev) : Reach d → Proc d evs → Reach (applyAll d evs)

end GnoVerif.C33
