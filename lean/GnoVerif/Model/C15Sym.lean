import GnoVerif.Model.C15
/-
The ideal ("symbolic") signature scheme used by the C15 driver, and the fixed
key ring it shares with the harness (harness/cmd/c15/main.go).

A leaf signature is a record of WHO signed WHICH sign doc (and whether the bytes
were left intact); a leaf key verifies exactly the intact records made by
itself over the expected doc.  Multisig keys and multisignatures mirror
`tm2/pkg/crypto/multisig/threshold_pubkey.go` (`VerifyBytes`, including the
rejection of a threshold of 0 or above the number of keys) and `ante.go`'s
`DefaultSigVerificationGasConsumer` / `consumeMultisignatureVerificationGas`
(`amino.MustUnmarshal` panics on an undecodable multisignature; `sig.Sigs[k]`
and `pubkey.PubKeys[i]` panic out of range; nested results are ignored).
Recursion is on an explicit fuel (nesting depth of the ring is ≤ 2).
Core-only.
-/
namespace GnoVerif.C15.Sym
open GnoVerif.C15

inductive KeyDef where
  | ed | secp
  | mock                               -- crypto/mock.PubKeyMock: not a recognised key type
  | multi (k : Nat) (subs : List Nat)
  | absent
  deriving DecidableEq, Repr

/-- The key ring; the address of ring key `i` is `i`. -/
def ring : Nat → KeyDef
  | 0 => .ed | 1 => .secp | 2 => .ed | 3 => .secp
  | 4 => .multi 2 [0, 1, 2]
  | 5 => .multi 0 [0]                  -- degenerate threshold
  | 6 => .ed | 7 => .secp              -- used as session keys
  | 8 => .multi 1 [4, 3]               -- nested
  | 9 => .ed                           -- a stranger
  | 10 => .mock
  | 11 => .multi 1 [10]
  | _ => .absent

def ringSize : Nat := 12

inductive SSig where
  | leaf (key : Nat) (doc : SignDoc Nat) (intact : Bool)
  | multi (bits : List Bool) (sigs : List SSig)
  | junk

def fuel : Nat := 4

def countTrue : List Bool → Nat
  | [] => 0
  | b :: bs => (if b then 1 else 0) + countTrue bs

/-- the loop of `VerifyBytes`: `v` verifies one sub-signature. -/
def vloop (v : Nat → SSig → Bool) : List Nat → List Bool → List SSig → Bool
  | p :: ps, b :: bs, sigs =>
    if b then
      match sigs with
      | [] => false                                  -- more positions marked than signatures
      | s :: ss => v p s && vloop v ps bs ss
    else vloop v ps bs sigs
  | _, _, _ => true

def verifyF : Nat → Nat → SignDoc Nat → SSig → Bool
  | 0, _, _, _ => false
  | f + 1, pk, doc, sg =>
    match ring pk with
    | .ed | .secp | .mock =>
      match sg with
      | .leaf k d true => decide (k = pk) && decide (d = doc)
      | _ => false
    | .multi K subs =>
      match sg with
      | .multi bits sigs =>
        if K = 0 ∨ K > subs.length then false          -- threshold 0 / above the key count never verifies
        else if subs.length ≠ bits.length then false
        else if sigs.length < K ∨ sigs.length > bits.length then false
        else if countTrue bits < K then false
        else vloop (fun p s => verifyF f p doc s) subs bits sigs
      | _ => false
    | .absent => false

/-- the loop of `consumeMultisignatureVerificationGas`; `ps` = `PubKeys[i:]`. -/
def gloop (g : Nat → SSig → GasRes) : List Nat → List Bool → List SSig → GasRes
  | _, [], _ => .ok
  | ps, b :: bs, sigs =>
    if b then
      match sigs, ps with
      | s :: ss, p :: ps' =>
        match g p s with
        | .panic => .panic
        | _ => gloop g ps' bs ss                     -- the nested result is ignored
      | _, _ => .panic                               -- index out of range
    else gloop g (ps.drop 1) bs sigs

def gasF : Nat → Nat → SSig → GasRes
  | 0, _, _ => .panic
  | f + 1, pk, sg =>
    match ring pk with
    | .ed | .secp => .ok
    | .mock | .absent => .invalidPubKey
    | .multi _ subs =>
      match sg with
      | .multi bits sigs => gloop (gasF f) subs bits sigs
      | _ => .panic                                  -- amino.MustUnmarshal

def subKeysF : Nat → Nat → Nat
  | 0, _ => 1
  | f + 1, pk =>
    match ring pk with
    | .multi _ subs => (subs.map (subKeysF f)).foldl (· + ·) 0
    | _ => 1

/-- The symbolic instance: sign bytes ARE the sign doc. -/
def crypto : Crypto Nat SSig (SignDoc Nat) where
  addrOf := fun pk => pk
  signBytes := fun d => d
  verify := fun pk d s => verifyF fuel pk d s
  sigGas := fun pk s => gasF fuel pk s
  subKeys := fun pk => subKeysF fuel pk

end GnoVerif.C15.Sym
