import GnoVerif.Base.Lex
/-!
# Model for C30, part 1: the IAVL node algorithms (`tm2/pkg/iavl`), ported function by function

Sources: `node.go` (Node, get/has/getByIndex, calcHeightAndSize, calcBalance,
clone, hashing), `mutable_tree.go` (recursiveSet, recursiveSetLeaf,
recursiveRemove, balance, rotateLeft/Right, saveNewNodes), `iterator.go`
(the `traversal` stack machine behind IterateRange / Iterator / Export),
`proof.go` + `proof_ics23.go` (PathToLeaf, existence / non-existence proofs and
their conversion to ICS23 operations).

An IAVL tree keeps **values in leaves** (`subtreeHeight == 0`, `size == 1`); an
inner node carries a routing `key` (smallest key of its right subtree), cached
`subtreeHeight` and `size` and two children.  A node that has been written by
`SaveVersion` carries its `nodeKey = (version, nonce)`; a node created since
the last save has `nodeKey == nil`.  `*Node == nil` is the empty tree
(`Option Node` at the tree level).

Representation choices (named as assumptions in props/C30.json):

* `Node.leaf` / `Node.inner` are the two shapes the code builds (`NewNode`;
  the two literals in `recursiveSetLeaf`; `clone` + child assignment, which
  never stores a nil child).  Go's test `subtreeHeight == 0` is the constructor
  test.  Children are values: the lazy loading of children from the node
  database (`getLeftNode` / `getRightNode` through `ndb.GetNode`) is the
  identity here; that the database returns the node that was written is
  carried by the correspondence run, not by a theorem.
* Errors the shapes still allow are explicit (`Err`): `clone` of a leaf
  (`ErrCloneLeafNode`), `calcBalance` of a leaf (`GetNode(nil)` →
  `ErrNodeMissingNodeKey`), `balance` of a persisted node.  The theorems show
  none is reachable on a well-formed tree.
* `subtreeHeight` is `int8`, `size`/versions are `int64` in Go; unbounded `Int`
  here (AVL height of a tree with < 2^63 leaves is ≤ 125, see Props/C30).
* hashing is parametric in the hash function `H` (`sha256` in the driver).

Core-only.
-/
namespace GnoVerif.C30

abbrev Key := Bytes

/-- `type NodeKey struct { version int64; nonce uint32 }` -/
structure NodeKey where
  version : Int
  nonce : Nat
  deriving DecidableEq, Repr

/-- errors of the node algorithms and of the tree / node-database layer (canonical tokens) -/
inductive Err where
  | cloneLeaf        -- ErrCloneLeafNode
  | missingNodeKey   -- ErrNodeMissingNodeKey (GetNode(nil))
  | persisted        -- "unexpected balance() call on persisted node"
  | nilValue         -- "attempt to store nil value at key"
  | noVersion        -- ErrVersionDoesNotExist
  | initVer          -- "initial version set to %v, but found earlier version %v"
  | target           -- "wanted to load target %d but only found up to %d"
  | empty            -- "no versions found while trying to load %v"
  | diffHash         -- "version %d was already saved to different hash"
  | latest           -- "latest version %d is less than or equal to toVersion %d"
  | present          -- "cannot create NonExistanceProof when Key in State"
  | absent           -- "key does not exist"
  deriving DecidableEq, Repr

def Err.token : Err → String
  | .cloneLeaf => "err:other"
  | .missingNodeKey => "err:other"
  | .persisted => "err:other"
  | .nilValue => "err:nilvalue"
  | .noVersion => "err:noversion"
  | .initVer => "err:initver"
  | .target => "err:target"
  | .empty => "err:empty"
  | .diffHash => "err:diffhash"
  | .latest => "err:latest"
  | .present => "err:present"
  | .absent => "err:absent"

/-- `type Node struct { key, value, nodeKey, size, leftNode, rightNode, subtreeHeight, … }` -/
inductive Node where
  | leaf (key value : Bytes) (nk : Option NodeKey)
  | inner (key : Bytes) (height size : Int) (nk : Option NodeKey) (left right : Node)
  deriving Repr

namespace Node

def key : Node → Bytes
  | leaf k _ _ => k
  | inner k _ _ _ _ _ => k

def height : Node → Int
  | leaf _ _ _ => 0
  | inner _ h _ _ _ _ => h

def size : Node → Int
  | leaf _ _ _ => 1
  | inner _ _ s _ _ _ => s

def nk : Node → Option NodeKey
  | leaf _ _ n => n
  | inner _ _ _ n _ _ => n

def isLeaf : Node → Bool
  | leaf _ _ _ => true
  | inner _ _ _ _ _ _ => false

/-- number of nodes (termination measure of the traversal machine) -/
def count : Node → Nat
  | leaf _ _ _ => 1
  | inner _ _ _ _ l r => 1 + l.count + r.count

/-- `NewNode(key, value)` -/
def new (key value : Bytes) : Node := leaf key value none

/-! ## reads (node.go) -/

/-- `has`: note the `bytes.Equal(node.key, key)` test at EVERY node, inner nodes included -/
def has : Node → Bytes → Bool
  | leaf nk' _ _, key => decide (nk' = key)
  | inner nk' _ _ _ l r, key =>
    if nk' = key then true
    else if key < nk' then l.has key
    else r.has key

/-- `get`: (index, value) -/
def get : Node → Bytes → Int × Option Bytes
  | leaf nk' nv _, key =>
    if nk' < key then (1, none)
    else if key < nk' then (0, none)
    else (0, some nv)
  | inner nk' _ s _ l r, key =>
    if key < nk' then l.get key
    else
      let (index, value) := r.get key
      (index + (s - r.size), value)

/-- `getByIndex`: `(nil, nil)` when the index is not a leaf position -/
def getByIndex : Node → Int → Option (Bytes × Bytes)
  | leaf nk' nv _, index => if index = 0 then some (nk', nv) else none
  | inner _ _ _ _ l r, index =>
    if index < l.size then l.getByIndex index
    else r.getByIndex (index - l.size)

/-! ## writes (mutable_tree.go) -/

/-- `clone` followed by nothing: a copy with `nodeKey = nil` (and `hash = nil`) -/
def clone : Node → Except Err Node
  | leaf _ _ _ => .error .cloneLeaf
  | inner k h s _ l r => .ok (inner k h s none l r)

/-- `calcHeightAndSize` (every call site holds a cloned inner node) -/
def calcHeightAndSize : Node → Node
  | leaf k v n => leaf k v n
  | inner k _ _ n l r => inner k (max l.height r.height + 1) (l.size + r.size) n l r

/-- `calcBalance`: on a leaf both child pointers and child keys are nil, so
`getLeftNode` ends in `ndb.GetNode(nil)` -/
def calcBalance : Node → Except Err Int
  | leaf _ _ _ => .error .missingNodeKey
  | inner _ _ _ _ l r => .ok (l.height - r.height)

/-- `rotateRight` -/
def rotateRight : Node → Except Err Node
  | inner k h s _ (inner lk lh ls _ ll lr) r =>
    -- node = node.clone(); newNode = node.leftNode.clone();
    -- node.leftNode = newNode.rightNode; newNode.rightNode = node
    let node := calcHeightAndSize (inner k h s none lr r)
    .ok (calcHeightAndSize (inner lk lh ls none ll node))
  | inner _ _ _ _ (leaf _ _ _) _ => .error .cloneLeaf
  | leaf _ _ _ => .error .cloneLeaf

/-- `rotateLeft` -/
def rotateLeft : Node → Except Err Node
  | inner k h s _ l (inner rk rh rs _ rl rr) =>
    let node := calcHeightAndSize (inner k h s none l rl)
    .ok (calcHeightAndSize (inner rk rh rs none node rr))
  | inner _ _ _ _ _ (leaf _ _ _) => .error .cloneLeaf
  | leaf _ _ _ => .error .cloneLeaf

/-- `balance` -/
def balance : Node → Except Err Node
  | leaf _ _ (some _) => .error .persisted
  | leaf _ _ none => .error .missingNodeKey
  | inner _ _ _ (some _) _ _ => .error .persisted
  | inner k h s none l r =>
    let bal := l.height - r.height
    if bal > 1 then
      match calcBalance l with
      | .error e => .error e
      | .ok lb =>
        if lb ≥ 0 then rotateRight (inner k h s none l r)          -- Left Left
        else match rotateLeft l with                                -- Left Right
          | .error e => .error e
          | .ok l' => rotateRight (inner k h s none l' r)
    else if bal < -1 then
      match calcBalance r with
      | .error e => .error e
      | .ok rb =>
        if rb ≤ 0 then rotateLeft (inner k h s none l r)           -- Right Right
        else match rotateRight r with                               -- Right Left
          | .error e => .error e
          | .ok r' => rotateLeft (inner k h s none l r')
    else .ok (inner k h s none l r)

/-- `recursiveSet` / `recursiveSetLeaf`: (newSelf, updated) -/
def set : Node → Bytes → Bytes → Except Err (Node × Bool)
  | leaf nk' nv n, key, value =>
    if key < nk' then .ok (inner nk' 1 2 none (new key value) (leaf nk' nv n), false)
    else if nk' < key then .ok (inner key 1 2 none (leaf nk' nv n) (new key value), false)
    else .ok (new key value, true)
  | inner nk' h s _ l r, key, value =>
    if key < nk' then
      match l.set key value with
      | .error e => .error e
      | .ok (l', updated) =>
        if updated then .ok (inner nk' h s none l' r, updated)
        else match balance (calcHeightAndSize (inner nk' h s none l' r)) with
          | .error e => .error e
          | .ok n => .ok (n, updated)
    else
      match r.set key value with
      | .error e => .error e
      | .ok (r', updated) =>
        if updated then .ok (inner nk' h s none l r', updated)
        else match balance (calcHeightAndSize (inner nk' h s none l r')) with
          | .error e => .error e
          | .ok n => .ok (n, updated)

/-- `recursiveRemove`: (newSelf, newKey, value, removed); `newKey` is Go's
possibly-nil `[]byte` (`none` = nil) -/
def remove : Node → Bytes → Except Err (Option Node × Option Bytes × Option Bytes × Bool)
  | leaf nk' nv n, key =>
    if key = nk' then .ok (none, none, some nv, true)
    else .ok (some (leaf nk' nv n), none, none, false)
  | inner nk' h s n l r, key =>
    if key < nk' then
      match l.remove key with
      | .error e => .error e
      | .ok (newLeft, newKey, value, removed) =>
        if !removed then .ok (some (inner nk' h s n l r), none, value, false)
        else match newLeft with
          | none => .ok (some r, some nk', value, true)     -- left node held value, was removed
          | some nl =>
            match balance (calcHeightAndSize (inner nk' h s none nl r)) with
            | .error e => .error e
            | .ok m => .ok (some m, newKey, value, true)
    else
      match r.remove key with
      | .error e => .error e
      | .ok (newRight, newKey, value, removed) =>
        if !removed then .ok (some (inner nk' h s n l r), none, value, false)
        else match newRight with
          | none => .ok (some l, none, value, true)         -- right node held value, was removed
          | some nr =>
            -- `if newKey != nil { node.key = newKey }`
            let k' := newKey.getD nk'
            match balance (calcHeightAndSize (inner k' h s none l nr)) with
            | .error e => .error e
            | .ok m => .ok (some m, none, value, true)

/-! ## saving (saveNewNodes): node keys in pre-order, saved subtrees untouched -/

/-- `recursiveAssignKey`: returns the node with keys assigned and the last nonce used -/
def assignKeys (version : Int) : Node → Nat → Node × Nat
  | leaf k v (some n), nonce => (leaf k v (some n), nonce)
  | leaf k v none, nonce => (leaf k v (some ⟨version, nonce + 1⟩), nonce + 1)
  | inner k h s (some n) l r, nonce => (inner k h s (some n) l r, nonce)
  | inner k h s none l r, nonce =>
    let (l', n1) := assignKeys version l (nonce + 1)
    let (r', n2) := assignKeys version r n1
    (inner k h s (some ⟨version, nonce + 1⟩) l' r', n2)

/-- is there a node with this node key in the tree? -/
def hasNodeKey (x : NodeKey) : Node → Bool
  | leaf _ _ n => decide (n = some x)
  | inner _ _ _ n l r => decide (n = some x) || l.hasNodeKey x || r.hasNodeKey x

/-! ## hashing (node.go `_hash`, `hashWithCount`, `writeHashBytes`) -/

/-- `binary.PutUvarint` -/
def uvarint (n : Nat) : Bytes :=
  if h : n < 128 then [UInt8.ofNat n]
  else UInt8.ofNat (n % 128 + 128) :: uvarint (n / 128)
termination_by n
decreasing_by omega

/-- `binary.PutVarint` / `fVarintEncode`: zig-zag, then uvarint -/
def varint (i : Int) : Bytes :=
  if i ≥ 0 then uvarint (2 * i.toNat) else uvarint (2 * (-i).toNat - 1)

/-- `encoding.EncodeBytes` -/
def encodeBytes (b : Bytes) : Bytes := uvarint b.length ++ b

/-- `encoding.Encode32BytesHash`: the length byte is the constant 0x20 -/
def encode32 (h : Bytes) : Bytes := 0x20 :: h

/-- the version written into a node's hash: its own if saved, the working version otherwise -/
def hashVersion (wv : Int) : Option NodeKey → Int
  | some n => n.version
  | none => wv

/-- node hash; `wv` is the version unsaved nodes are hashed with -/
def hash (H : Bytes → Bytes) (wv : Int) : Node → Bytes
  | leaf k v n =>
    H (varint 0 ++ varint 1 ++ varint (hashVersion wv n) ++ encodeBytes k ++ encode32 (H v))
  | inner _ h s n l r =>
    H (varint h ++ varint s ++ varint (hashVersion wv n) ++ encode32 (l.hash H wv) ++ encode32 (r.hash H wv))

/-! ## traversal (iterator.go) -/

/-- the leaves, left to right -/
def toList : Node → List (Bytes × Bytes)
  | leaf k v _ => [(k, v)]
  | inner _ _ _ _ l r => l.toList ++ r.toList

end Node

/-- `type traversal struct` -/
structure Trav where
  start : Option Bytes
  end_ : Option Bytes
  ascending : Bool
  inclusive : Bool
  post : Bool
  /-- `delayedNodes`; the head of the list is the top of the stack -/
  stack : List (Node × Bool)

namespace Trav

def weight : List (Node × Bool) → Nat
  | [] => 0
  | (n, true) :: rest => 2 * n.count + weight rest
  | (_, false) :: rest => 1 + weight rest

theorem count_pos (n : Node) : 0 < n.count := by cases n <;> simp [Node.count] <;> omega

/-- `afterStart`, `startOrAfter`, `beforeEnd` of `traversal.next` -/
def afterStart (t : Trav) (k : Bytes) : Bool :=
  match t.start with
  | none => true
  | some s => decide (s < k)

def startOrAfter (t : Trav) (k : Bytes) : Bool :=
  t.afterStart k || (match t.start with | none => false | some s => decide (s = k))

def beforeEnd (t : Trav) (k : Bytes) : Bool :=
  let b := match t.end_ with
    | none => true
    | some e => decide (k < e)
  if t.inclusive then b || (match t.end_ with | none => false | some e => decide (k = e)) else b

/-- the children pushed by `next` for an inner node, top of stack first -/
def pushed (t : Trav) (k : Bytes) (l r : Node) : List (Node × Bool) :=
  if t.ascending then
    -- push right, then left: left is on top
    (if t.afterStart k then [(l, true)] else []) ++ (if t.beforeEnd k then [(r, true)] else [])
  else
    (if t.beforeEnd k then [(r, true)] else []) ++ (if t.afterStart k then [(l, true)] else [])

theorem weight_append (a b : List (Node × Bool)) : weight (a ++ b) = weight a + weight b := by
  induction a with
  | nil => simp [weight]
  | cons x xs ih =>
    obtain ⟨n, d⟩ := x
    cases d <;> simp [weight, ih] <;> omega

theorem weight_pushed_le (t : Trav) (k : Bytes) (l r : Node) :
    weight (t.pushed k l r) ≤ 2 * l.count + 2 * r.count := by
  unfold pushed
  split <;> (rw [weight_append]; split <;> split <;> simp [weight] <;> omega)

/-- `traversal.next` on the stack `stk` (the parameters are read from `t`): the next
node handed to the caller and the stack left behind -/
def nextStack (t : Trav) (stk : List (Node × Bool)) : Option (Node × List (Node × Bool)) :=
  match stk with
  | [] => none
  | (node, false) :: rest => some (node, rest)
  | (Node.leaf k v n, true) :: rest =>
    let inr := t.startOrAfter k && t.beforeEnd k
    if t.post then
      -- `t.delayedNodes.push(node, false)` and the final `return t.next()` pops it again
      if inr then nextStack t ((Node.leaf k v n, false) :: rest) else nextStack t rest
    else
      if inr then some (Node.leaf k v n, rest) else nextStack t rest
  | (Node.inner k h s n l r, true) :: rest =>
    let self := Node.inner k h s n l r
    if t.post then
      nextStack t (t.pushed k l r ++ (self, false) :: rest)
    else
      some (self, t.pushed k l r ++ rest)
termination_by weight stk
decreasing_by
  all_goals simp only [weight, weight_append, Node.count]
  · omega
  · omega
  · omega
  · have := weight_pushed_le t k l r; omega

/-- `traversal.next` -/
def next (t : Trav) : Option (Node × Trav) :=
  (t.nextStack t.stack).map fun (n, stk) => (n, { t with stack := stk })

/-- the caller's loop `for node := t.next(); node != nil; node = t.next()`; every
call of `next` lowers `weight`, so that many rounds exhaust the machine
(`Proofs/C30Iter.lean`) -/
def runFuel (t : Trav) : Nat → List (Node × Bool) → List Node
  | 0, _ => []
  | fuel + 1, stk =>
    match t.nextStack stk with
    | none => []
    | some (n, stk') => n :: runFuel t fuel stk'

/-- every node the machine hands out, in order -/
def run (t : Trav) : List Node := t.runFuel (weight t.stack) t.stack

end Trav
end GnoVerif.C30
