/-
Model.C46Bip39 — executable model of tm2/pkg/crypto/bip39/bip39.go
(NewMnemonic, IsMnemonicValid, MnemonicToByteArray, addChecksum).

Go strings are byte strings: a mnemonic is a `List UInt8`.  The model is
parametric in

* `sha : Bytes → Bytes`  — SHA-256 (only its first output byte is used);
  the driver instantiates `GnoVerif.Sha256.sha256`, no theorem looks inside;
* `wl  : List Bytes`     — `bip39.WordList`; the driver and the top-level
  theorems instantiate `GnoVerif.Gen.C46.wordList`, regenerated from
  wordlist.go on every run.

`math/big` values are `Nat`.  `x.Bytes()` followed by left-padding to `n`
bytes is `toBE n x` (exact whenever `x < 256^n`, which the code's size checks
guarantee at every use — see `Proofs/C46Bip39.lean`).

Restriction (stated, enforced by driver and harness alike): mnemonics are
ASCII (every byte < 0x80).  For ASCII input Go's `strings.Fields` splits
around runs of `\t \n \v \f \r ' '`; with non-ASCII bytes it would also treat
U+0085, U+00A0, … as separators, which is not modelled.
Core-only (links into the driver).
-/
namespace GnoVerif.C46

abbrev Bytes := List UInt8

/-! ### big-endian numbers -/

/-- `new(big.Int).SetBytes(bs)` -/
def fromBE (bs : Bytes) : Nat := bs.foldl (fun a b => a * 256 + b.toNat) 0

/-- the low `8n` bits of `v` as `n` big-endian bytes: `v.Bytes()` left-padded to `n` -/
def toBE : Nat → Nat → Bytes
  | 0, _ => []
  | n+1, v => toBE n (v / 256) ++ [UInt8.ofNat (v % 256)]

/-- `n` base-2048 digits of `v`, most significant first -/
def digits2048 : Nat → Nat → List Nat
  | 0, _ => []
  | n+1, v => digits2048 n (v / 2048) ++ [v % 2048]

/-- `b = b*2048 + idx` over the word indices -/
def fromDigits2048 (ds : List Nat) : Nat := ds.foldl (fun a d => a * 2048 + d) 0

/-! ### strings.Fields / strings.Split / strings.Join on ASCII byte strings -/

/-- Go's `asciiSpace` table -/
def isSpace (b : UInt8) : Bool :=
  b == 9 || b == 10 || b == 11 || b == 12 || b == 13 || b == 32

/-- split at every byte satisfying `p` (the separator is dropped): `n` separators ↦ `n+1` pieces -/
def splitP (p : UInt8 → Bool) : Bytes → List Bytes
  | [] => [[]]
  | b :: r =>
    if p b then [] :: splitP p r
    else match splitP p r with
      | [] => [[b]]
      | x :: xs => (b :: x) :: xs

/-- `strings.Split(s, " ")` -/
def splitSpace (s : Bytes) : List Bytes := splitP (· == 32) s

/-- `strings.Fields(s)` for ASCII `s` -/
def fields (s : Bytes) : List Bytes := (splitP isSpace s).filter (fun w => !w.isEmpty)

/-- `strings.Join(ws, " ")` -/
def joinSp : List Bytes → Bytes
  | [] => []
  | [w] => w
  | w :: r => w ++ 32 :: joinSp r

def isAscii (s : Bytes) : Bool := s.all (· < 128)

/-! ### the word list and `ReverseWordMap` -/

/-- `ReverseWordMap[v]` after `for i, v := range WordList { ReverseWordMap[v] = i }`:
    the LAST index holding `v` (later assignments overwrite earlier ones). -/
def lookupAux (v : Bytes) : List Bytes → Nat → Option Nat → Option Nat
  | [], _, acc => acc
  | w :: r, i, acc => lookupAux v r (i+1) (if w == v then some i else acc)

def lookup (wl : List Bytes) (v : Bytes) : Option Nat := lookupAux v wl 0 none

/-! ### bip39.go -/

inductive Err where
  | entropy      -- validateEntropyBitSize
  | invalid      -- !IsMnemonicValid
  | size         -- validateEntropyWithChecksumBitSize
  | word         -- word not found in reverse map
  | checksum     -- "invalid byte at position"
  | panicIndex   -- WordList[i] out of range (unreachable with a 2048-word list)
  deriving DecidableEq, Repr

/-- `validateEntropyBitSize` -/
def validEntropyBits (bits : Nat) : Bool := bits % 32 == 0 && 128 ≤ bits && bits ≤ 256

/-- `validateEntropyWithChecksumBitSize` -/
def validChecksummedBits (bits : Nat) : Bool :=
  bits == 128+4 || bits == 160+5 || bits == 192+6 || bits == 224+7 || bits == 256+8

/-- one round of the loop of `addChecksum`: shift left, or-in bit `7-i` of the first hash byte.
    (`1<<(7-i)` is a byte shift: for `i > 7` it is 0 — unreachable, `len(data) ≤ 32`.) -/
def csStep (h0 : UInt8) (v : Nat) (i : Nat) : Nat :=
  if i ≤ 7 && h0.toNat.testBit (7 - i) then v * 2 ||| 1 else v * 2

/-- `addChecksum(data)` as a number (the code returns `dataBigInt.Bytes()`, every caller
    converts back or pads) -/
def addChecksum (sha : Bytes → Bytes) (data : Bytes) : Nat :=
  let h0 := (sha data).headD 0
  (List.range (data.length / 4)).foldl (csStep h0) (fromBE data)

/-- `NewMnemonic(entropy)` -/
def newMnemonic (sha : Bytes → Bytes) (wl : List Bytes) (entropy : Bytes) : Except Err Bytes :=
  let entropyBitLength := entropy.length * 8
  let checksumBitLength := entropyBitLength / 32
  let sentenceLength := (entropyBitLength + checksumBitLength) / 11
  if !validEntropyBits entropyBitLength then .error .entropy else
  let v := addChecksum sha entropy
  let idxs := digits2048 sentenceLength v
  if idxs.all (· < wl.length) then
    .ok (joinSp (idxs.map (fun i => wl.getD i [])))
  else .error .panicIndex

/-- `IsMnemonicValid(mnemonic)` -/
def isMnemonicValid (wl : List Bytes) (m : Bytes) : Bool :=
  let words := fields m
  let n := words.length
  if n < 12 || n > 24 || n % 3 != 0 then false
  else words.all (fun w => (lookup wl w).isSome)

/-- the word loop of `MnemonicToByteArray`: `b = b*2048 + index`, first unknown word aborts -/
def wordsToNat (wl : List Bytes) : List Bytes → Nat → Option Nat
  | [], b => some b
  | w :: r, b =>
    match lookup wl w with
    | none => none
    | some i => wordsToNat wl r (b * 2048 + i)

/-- `MnemonicToByteArray(mnemonic)`: the entropy WITH its checksum bits appended, as a
    right-aligned big-endian number of `entropyBytes + 1` bytes. -/
def mnemonicToByteArray (sha : Bytes → Bytes) (wl : List Bytes) (m : Bytes) : Except Err Bytes :=
  if !isMnemonicValid wl m then .error .invalid else
  let mnemonicSlice := splitSpace m
  let bitSize := mnemonicSlice.length * 11
  if !validChecksummedBits bitSize then .error .size else
  let checksumSize := bitSize % 32
  match wordsToNat wl mnemonicSlice 0 with
  | none => .error .word
  | some b =>
    let entropy := b / 2 ^ checksumSize
    let byteSize := (bitSize - checksumSize) / 8 + 1
    let entropyByteSize := (bitSize - checksumSize) / 8
    let hex := toBE byteSize b
    let entropyHex := toBE entropyByteSize entropy
    let validationHex := toBE byteSize (addChecksum sha entropyHex)
    if hex == validationHex then .ok hex else .error .checksum

/-- `NewSeedWithErrorChecking`: the check it performs before PBKDF2 (PBKDF2 itself is not modelled) -/
def seedCheck (sha : Bytes → Bytes) (wl : List Bytes) (m : Bytes) : Except Err Unit :=
  match mnemonicToByteArray sha wl m with
  | .ok _ => .ok ()
  | .error e => .error e

/-- NOT in the code (bip39.go has no `EntropyFromMnemonic`): what a caller has to do to get the
    entropy back out of `MnemonicToByteArray`'s result — drop the `(len-1)/4` checksum bits. -/
def stripChecksum (ba : Bytes) : Bytes :=
  let n := ba.length - 1
  toBE n (fromBE ba / 2 ^ (n / 4))

end GnoVerif.C46
