import GnoVerif.Model.C49
/-!
C49: the vocabulary of the property statements (legal runs, "every id between a and b has been
removed", live count) and the inductive invariant of the clist model.  Definitions only; the
proofs are in Proofs/C49*.lean.  Core-only.
-/
namespace GnoVerif.C49

/-- has element `i` been removed? -/
def State.rem (s : State) (i : Nat) : Bool := (s.elems i).removed

/-- every id strictly between `a` and `b` has been removed. -/
def GapRem (s : State) (a b : Nat) : Prop := ∀ j, a < j → j < b → s.rem j = true

/-- number of ids `< n` with `r i = false`. -/
def cnt (r : Nat → Bool) : Nat → Nat
  | 0 => 0
  | n+1 => cnt r n + (if r n then 0 else 1)

/-- number of elements that are in the list (created and not removed). -/
def liveCount (s : State) : Nat := cnt s.rem s.size

/-- the abstract list: the ids created and not removed, in insertion order. -/
def remaining (s : State) : List Nat := (List.range s.size).filter (fun i => !s.rem i)

/-- The contract of `Remove`: the element is in the list, i.e. it has not been removed before
    ("removed elements cannot be added back" — nor removed again).  The code does NOT enforce
    it (see `remove_once_guard_needed_counterexample`).  Every other step is unrestricted
    (`DetachPrev/DetachNext` on a live element panic cleanly, ops on ids never created are
    no-ops, traverser steps in any order). -/
def Legal (s : State) : Op → Prop
  | .remove e => e < s.size → s.rem e = false
  | _ => True

/-- a finite schedule of atomic steps, each legal when it is taken. -/
def LegalRun (s : State) : List Op → Prop
  | [] => True
  | op :: ops => Legal s op ∧ LegalRun (step s op) ops

/-- `s` is the state after some legal schedule of atomic steps from the empty list. -/
def Reachable (s : State) : Prop := ∃ ops, LegalRun init ops ∧ s = run init ops

instance (s : State) (op : Op) : Decidable (Legal s op) := by
  cases op <;> simp only [Legal] <;> infer_instance

instance : (s : State) → (ops : List Op) → Decidable (LegalRun s ops)
  | _, [] => isTrue trivial
  | s, op :: ops =>
    have := instDecidableLegalRun (step s op) ops
    by simp only [LegalRun]; infer_instance

/-! ### the invariant -/

/-- element `i`'s pointers and wait flags are consistent with the set of removed ids. -/
structure ElemOK (s : State) (i : Nat) : Prop where
  next_some : ∀ n, (s.elems i).next = some n →
    i < n ∧ n < s.size ∧ GapRem s i n ∧ (s.rem i = false → s.rem n = false)
  next_none : (s.elems i).next = none → s.rem i = false → GapRem s i s.size
  prev_some : ∀ p, (s.elems i).prev = some p →
    p < i ∧ GapRem s p i ∧ (s.rem i = false → s.rem p = false)
  prev_none : (s.elems i).prev = none → s.rem i = false → ∀ j, j < i → s.rem j = true
  nclosed : (s.elems i).nextClosed = ((s.elems i).next.isSome || s.rem i)
  pclosed : (s.elems i).prevClosed = ((s.elems i).prev.isSome || s.rem i)
  nstale : ∀ b ∈ (s.elems i).nextStale, b = true
  pstale : ∀ b ∈ (s.elems i).prevStale, b = true

structure ListOK (s : State) : Prop where
  head_some : ∀ h, s.head = some h → h < s.size ∧ s.rem h = false ∧ ∀ j, j < h → s.rem j = true
  head_none : s.head = none → ∀ j, j < s.size → s.rem j = true
  tail_some : ∀ t, s.tail = some t → t < s.size ∧ s.rem t = false ∧ GapRem s t s.size
  tail_none : s.tail = none → ∀ j, j < s.size → s.rem j = true
  len_eq : s.len = (liveCount s : Int)
  closed_eq : s.closed = s.head.isSome
  stale_ok : ∀ b ∈ s.stale, b = true

/-- traverser `t`'s log and control state are consistent. -/
structure TravOK (s : State) (t : Nat) : Prop where
  sorted : (s.travs t).log.Pairwise (· < ·)
  bound : ∀ x ∈ (s.travs t).log, x < s.size
  cover : ∀ x ∈ (s.travs t).log, ∀ j, j < x → j ∈ (s.travs t).log ∨ s.rem j = true
  st_at : ∀ e, (s.travs t).st = .at e → e ∈ (s.travs t).log ∧ ∀ x ∈ (s.travs t).log, x ≤ e
  st_wn : ∀ e w, (s.travs t).st = .wantNext e w → e ∈ (s.travs t).log ∧ (∀ x ∈ (s.travs t).log, x ≤ e) ∧
    ∀ g, w = some g → g ≤ (s.elems e).nextStale.length
  st_wf : ∀ w, (s.travs t).st = .wantFront w → (s.travs t).log = [] ∧
    ∀ g, w = some g → g ≤ s.stale.length
  st_idle : (s.travs t).st = .idle → (s.travs t).log = []

structure Inv (s : State) : Prop where
  alive : s.poisoned = false
  list : ListOK s
  elem : ∀ i, i < s.size → ElemOK s i
  trav : ∀ t, TravOK s t

end GnoVerif.C49
