import GnoVerif.Model.C46Armor
/-
Model.C46Keys — executable model of the gno-authored logic around the
cryptographic primitives:

* tm2/pkg/crypto/keys/armor/armor.go, armor_unsafe.go
  (EncryptArmorPrivKey, UnarmorDecryptPrivKey, ArmorPrivateKey, UnarmorPrivateKey,
   armorBytes / unarmorBytes);
* tm2/pkg/crypto/xsalsa20symmetric/symmetric.go (nonce ‖ box layout, the
  "too short" check — `<` since /repo 3171d20601; it was `<=`, which rejected the
  encryption of an empty plaintext);
* the way tm2/pkg/crypto/bcrypt reads the passphrase: `ckey = password ‖ 0x00`
  is consumed by blowfish `ExpandKey`/`expandKeyWithSalt` as a CYCLIC stream of
  exactly 18·4 = 72 bytes (`keyStream`), nothing else of the passphrase is used;
* tm2/pkg/crypto/hd/hdpath.go: the path syntax of DerivePrivateKeyForPath and
  NewParamsFromPath / BIP44Params.String (strconv.Atoi, the `'` suffix, the
  `uint32(idx)` conversions).

NOT modelled (abstract parameters, `Crypto`): Blowfish/bcrypt itself and SHA-256
on top of it (`kdfCore`), XSalsa20-Poly1305 (`sealBox`/`openBox`), amino decoding of
a private key (`keyFromBytes`), HMAC-SHA512 and secp256k1 (key derivation: the
model only says which path strings are accepted).
Core-only.
-/
namespace GnoVerif.C46

/-- the abstract primitives -/
structure Crypto where
  /-- `sha256(bcrypt(salt, ·, 12))` as a function of the 72-byte key stream -/
  kdfCore : Bytes → Bytes → Bytes
  /-- `secretbox.Seal(nil, plaintext, nonce, key)` : key → nonce → plaintext → box -/
  sealBox : Bytes → Bytes → Bytes → Bytes
  /-- `secretbox.Open` : key → nonce → box → plaintext? -/
  openBox : Bytes → Bytes → Bytes → Option Bytes
  /-- `crypto.PrivKeyFromBytes` followed by `.Bytes()`: the canonical encoding of the decoded key -/
  keyFromBytes : Bytes → Option Bytes

/-- the 72 key bytes Blowfish's key schedule reads from `password ‖ 0` (cyclically) -/
def keyStream (password : Bytes) : Bytes :=
  let ck := password ++ [0]
  (List.range 72).map (fun i => ck.getD (i % ck.length) 0)

/-- `sha256(bcrypt.GenerateFromPassword(salt, passphrase, 12))` -/
def Crypto.kdf (C : Crypto) (salt pass : Bytes) : Bytes := C.kdfCore salt (keyStream pass)

/-! ### hex (fmt "%X", encoding/hex.DecodeString) -/

def hexUpperDigit (n : Nat) : UInt8 := if n < 10 then UInt8.ofNat (48 + n) else UInt8.ofNat (55 + n)

/-- `fmt.Sprintf("%X", bytes)` -/
def hexUpper : Bytes → Bytes
  | [] => []
  | b :: r => hexUpperDigit (b.toNat / 16) :: hexUpperDigit (b.toNat % 16) :: hexUpper r

def hexVal (c : UInt8) : Option Nat :=
  let n := c.toNat
  if 48 ≤ n ∧ n ≤ 57 then some (n - 48)
  else if 97 ≤ n ∧ n ≤ 102 then some (n - 97 + 10)
  else if 65 ≤ n ∧ n ≤ 70 then some (n - 65 + 10)
  else none

/-- `hex.DecodeString`: `none` for an odd length or a non-hex character -/
def hexDecode : Bytes → Option Bytes
  | [] => some []
  | [_] => none
  | a :: b :: r =>
    match hexVal a, hexVal b, hexDecode r with
    | some x, some y, some bs => some (UInt8.ofNat (x * 16 + y) :: bs)
    | _, _, _ => none

/-! ### armor.go -/

/-- "TENDERMINT PRIVATE KEY" -/
def blockTypePrivKey : Bytes := [84,69,78,68,69,82,77,73,78,84,32,80,82,73,86,65,84,69,32,75,69,89]
/-- "TENDERMINT KEY INFO" -/
def blockTypeKeyInfo : Bytes := [84,69,78,68,69,82,77,73,78,84,32,75,69,89,32,73,78,70,79]
/-- "TENDERMINT PUBLIC KEY" -/
def blockTypePubKey : Bytes := [84,69,78,68,69,82,77,73,78,84,32,80,85,66,76,73,67,32,75,69,89]

def sKdf : Bytes := [107,100,102]            -- "kdf"
def sBcrypt : Bytes := [98,99,114,121,112,116] -- "bcrypt"
def sSalt : Bytes := [115,97,108,116]        -- "salt"
def sType : Bytes := [116,121,112,101]       -- "type"
def sInfo : Bytes := [73,110,102,111]        -- "Info"
def sVersion : Bytes := [118,101,114,115,105,111,110] -- "version"
def sV000 : Bytes := [48,46,48,46,48]        -- "0.0.0"

def nonceLen : Nat := 24
def secretLen : Nat := 32
def boxOverhead : Nat := 16

inductive KeyErr where
  | armor (e : ArmorErr)   -- DecodeArmor failed
  | type                   -- unrecognized armor type
  | header                 -- UnarmorPrivateKey: non-empty header
  | version                -- unarmorBytes: unrecognized version
  | kdf                    -- header["kdf"] != "bcrypt"
  | nosalt                 -- header["salt"] == ""
  | salthex                -- hex.DecodeString(header["salt"]) failed
  | exitBcrypt             -- bcrypt error (salt length != 16) ⇒ os.Exit(1): the PROCESS exits
  | panicSecret            -- xsalsa20symmetric: secret not 32 bytes (unreachable behind sha256)
  | short                  -- "ciphertext is too short"
  | wrongpass              -- secretbox.Open failed ⇒ keyerror.ErrWrongPassword
  | amino                  -- crypto.PrivKeyFromBytes failed
  deriving DecidableEq, Repr

/-- `xsalsa20symmetric.EncryptSymmetric(plaintext, secret)` with the random nonce made explicit -/
def encryptSymmetric (C : Crypto) (plaintext secret nonce : Bytes) : Except KeyErr Bytes :=
  if secret.length ≠ secretLen then .error .panicSecret
  else .ok (nonce ++ C.sealBox secret nonce plaintext)

/-- `xsalsa20symmetric.DecryptSymmetric(ciphertext, secret)` -/
def decryptSymmetric (C : Crypto) (ciphertext secret : Bytes) : Except KeyErr Bytes :=
  if secret.length ≠ secretLen then .error .panicSecret
  else if ciphertext.length < boxOverhead + nonceLen then .error .short
  else match C.openBox secret (ciphertext.take nonceLen) (ciphertext.drop nonceLen) with
    | none => .error .wrongpass
    | some pt => .ok pt

/-- `ArmorPrivateKey(privKey)` (`keyBytes = privKey.Bytes()`) -/
def armorPrivateKey (keyBytes : Bytes) : Bytes := encodeArmor blockTypePrivKey [] keyBytes

/-- `EncryptArmorPrivKey(privKey, passphrase)`; `salt` (16 random bytes), `nonce` (24 random
    bytes) and the map iteration order of the two headers (`saltFirst`) are explicit. -/
def encryptArmorPrivKey (C : Crypto) (keyBytes pass salt nonce : Bytes) (saltFirst : Bool) :
    Except KeyErr Bytes :=
  if pass.isEmpty then .ok (armorPrivateKey keyBytes)
  else if salt.length ≠ 16 then .error .exitBcrypt
  else match encryptSymmetric C keyBytes (C.kdf salt pass) nonce with
    | .error e => .error e
    | .ok enc =>
      let hk := (sKdf, sBcrypt)
      let hs := (sSalt, hexUpper salt)
      .ok (encodeArmor blockTypePrivKey (if saltFirst then [hs, hk] else [hk, hs]) enc)

def keyOf (C : Crypto) (bz : Bytes) : Except KeyErr Bytes :=
  match C.keyFromBytes bz with
  | some k => .ok k
  | none => .error .amino

/-- `decryptPrivKey(saltBytes, encBytes, passphrase)` -/
def decryptPrivKey (C : Crypto) (salt enc pass : Bytes) : Except KeyErr Bytes :=
  if salt.length ≠ 16 then .error .exitBcrypt
  else match decryptSymmetric C enc (C.kdf salt pass) with
    | .error e => .error e
    | .ok pt => keyOf C pt

/-- `UnarmorDecryptPrivKey(armorStr, passphrase)`; the result is the decoded key's `.Bytes()` -/
def unarmorDecryptPrivKey (C : Crypto) (text pass : Bytes) : Except KeyErr Bytes :=
  match decodeArmor text with
  | .error e => .error (.armor e)
  | .ok (ty, hdr, enc) =>
    if ty != blockTypePrivKey then .error .type
    else if hdr.length = 0 && pass.isEmpty then keyOf C enc
    else if hdrGet hdr sKdf != sBcrypt then .error .kdf
    else if (hdrGet hdr sSalt).isEmpty then .error .nosalt
    else match hexDecode (hdrGet hdr sSalt) with
      | none => .error .salthex
      | some salt => decryptPrivKey C salt enc pass

/-- `UnarmorPrivateKey(armorStr)` (armor_unsafe.go) -/
def unarmorPrivateKey (C : Crypto) (text : Bytes) : Except KeyErr Bytes :=
  match decodeArmor text with
  | .error e => .error (.armor e)
  | .ok (ty, hdr, bz) =>
    if ty != blockTypePrivKey then .error .type
    else if hdr.length > 0 then .error .header
    else keyOf C bz

/-- `armorBytes(bz, blockType)`; `typeFirst` = map iteration order -/
def armorBytes (bz blockType : Bytes) (typeFirst : Bool) : Bytes :=
  let ht := (sType, sInfo)
  let hv := (sVersion, sV000)
  encodeArmor blockType (if typeFirst then [ht, hv] else [hv, ht]) bz

/-- `unarmorBytes(armorStr, blockType)` -/
def unarmorBytes (text blockType : Bytes) : Except KeyErr Bytes :=
  match decodeArmor text with
  | .error e => .error (.armor e)
  | .ok (ty, hdr, bz) =>
    if ty != blockType then .error .type
    else if hdrGet hdr sVersion != sV000 then .error .version
    else .ok bz

/-! ### hd: path syntax -/

def isDigit (b : UInt8) : Bool := 48 ≤ b && b ≤ 57

def decVal (s : Bytes) : Nat := s.foldl (fun a b => a * 10 + (b.toNat - 48)) 0

/-- `strconv.Atoi(s)` on a 64-bit platform: optional single sign, decimal digits only,
    `none` for a syntax error or a value outside int64 -/
def atoi (s : Bytes) : Option Int :=
  let (neg, ds) := match s with
    | 45 :: r => (true, r)
    | 43 :: r => (false, r)
    | _ => (false, s)
  if ds.isEmpty || !ds.all isDigit then none
  else
    let v := decVal ds
    if neg then (if v ≤ 2 ^ 63 then some (- (v : Int)) else none)
    else (if v < 2 ^ 63 then some (v : Int) else none)

inductive PathErr where
  | syntax     -- Atoi failed / negative index
  | panicEmpty -- an empty path component: `part[len(part)-1:]` panics (slice bounds out of range)
  deriving DecidableEq, Repr

/-- the per-component work of `DerivePrivateKeyForPath`: `(uint32(idx), harden)` -/
def pathPart (part : Bytes) : Except PathErr (Nat × Bool) :=
  if part.isEmpty then .error .panicEmpty
  else
    let harden := part.getLast? == some 39
    let part := if harden then part.dropLast else part
    match atoi part with
    | none => .error .syntax
    | some idx =>
      if idx < 0 then .error .syntax
      else .ok (idx.toNat % 2 ^ 32, harden)

/-- the index list `DerivePrivateKeyForPath(_, _, path)` derives along (left to right; the
    first failing component decides) -/
def parsePath (path : Bytes) : Except PathErr (List (Nat × Bool)) :=
  (splitP (· == 47) path).mapM pathPart

inductive ParamsErr where
  | length | atoi | negative | purpose | hardened | notHardened | change
  deriving DecidableEq, Repr

structure BIP44Params where
  purpose : Nat
  coinType : Nat
  account : Nat
  change : Bool
  addressIndex : Nat
  deriving DecidableEq, Repr

/-- `strings.TrimSuffix(field, "'")` -/
def trimQuote (f : Bytes) : Bytes := if f.getLast? == some 39 then f.dropLast else f

/-- `hardenedInt(field)` -/
def hardenedInt (f : Bytes) : Except ParamsErr Nat :=
  match atoi (trimQuote f) with
  | none => .error .atoi
  | some i => if i < 0 then .error .negative else .ok (i.toNat % 2 ^ 32)

def isHardened (f : Bytes) : Bool := f.getLast? == some 39

/-- `NewParamsFromPath(path)` -/
def newParamsFromPath (path : Bytes) : Except ParamsErr BIP44Params :=
  match splitP (· == 47) path with
  | [s0, s1, s2, s3, s4] =>
    match hardenedInt s0 with
    | .error e => .error e
    | .ok purpose =>
    match hardenedInt s1 with
    | .error e => .error e
    | .ok coinType =>
    match hardenedInt s2 with
    | .error e => .error e
    | .ok account =>
    match hardenedInt s3 with
    | .error e => .error e
    | .ok change =>
    match hardenedInt s4 with
    | .error e => .error e
    | .ok addressIdx =>
      if s0 != [52, 52, 39] then .error .purpose
      else if !isHardened s1 || !isHardened s2 then .error .hardened
      else if isHardened s3 || isHardened s4 then .error .notHardened
      else if !(change == 0 || change == 1) then .error .change
      else .ok ⟨purpose, coinType, account, change > 0, addressIdx⟩
  | _ => .error .length

/-- decimal rendering (`%d`) -/
def decStr (n : Nat) : Bytes := (Nat.toDigits 10 n).map (fun c => UInt8.ofNat c.toNat)

/-- `BIP44Params.String()` -/
def BIP44Params.str (p : BIP44Params) : Bytes :=
  decStr p.purpose ++ [39, 47] ++ decStr p.coinType ++ [39, 47] ++ decStr p.account ++ [39, 47] ++
  (if p.change then [49] else [48]) ++ [47] ++ decStr p.addressIndex

end GnoVerif.C46
