import GnoVerif.Model.C30Avl
/-!
# Model for C30, part 2: `MutableTree` over the node database (versions)

Sources: `mutable_tree.go` (Set, Remove, SaveVersion, LoadVersion,
LoadVersionForOverwriting, Rollback, GetImmutable, GetVersioned,
VersionExists, AvailableVersions, DeleteVersionsTo, WorkingVersion/Hash),
`nodedb.go` (getFirstVersion with its binary search over `hasVersion`,
getLatestVersion, GetRoot, deleteVersionsTo / deleteVersion, DeleteVersionsFrom,
the write batch and Commit).

**Versions are persistent values.**  The database is abstracted to what the
tree API can observe of it:

* `roots` — the entry under node key `(v, 1)` of every version that was saved
  and not deleted: the root node itself, a reference to an older node, or the
  empty marker.  A saved version is an immutable Lean value, so "a saved version
  never changes" holds by construction *in the model*; that the real node
  database (shared nodes, orphan deletion, reformatted roots) honours it is
  established by the correspondence run and the oracle only.
* `stuck` — deleted versions `v` whose database key `(v, 1)` outlives them.
  `deleteVersion(v)` removes the orphans of `v → v+1`; when the root of `v` is a
  single leaf that `v+1` still uses as a child, its key `(v, 1)` stays.  The code
  tests "version exists" by `db.Has(nodeKey(v, 1))` (`hasVersion`), and
  `getFirstVersion` binary-searches on that test, so such a key makes a deleted
  version reappear after a restart (finding `ghost-version`, props/C30.json).
  When the leaf is finally orphaned, `deleteVersion` renames every orphan with
  `nonce == 1` and an older version to nonce 0 and deletes THAT key, so the entry
  never goes away (except through `DeleteVersionsFrom` or by deleting the ghost
  version itself).
* the write batch: writes go to `pend`, reads see `db`, `Commit` moves one to
  the other; a failed `DeleteVersionsTo` leaves its deletions in the batch.

`deleteVersion`'s orphan walk (`traverseOrphans`, which aligns two pre-order
iterations by node hash) is NOT ported: a node is "shared with the next version"
here iff the next version's tree contains a node with the same node key.

The cached `firstVersion` / `latestVersion` of `nodeDB` are part of the state
(they are what a restart resets).  No legacy (pre-v1 format) data exists:
`getLegacyLatestVersion` is the constant -1.  AsyncPruning is off, version
readers are never registered.

Core-only.
-/
namespace GnoVerif.C30

/-- what the tree API can observe of the node database -/
structure DB where
  roots : List (Int × Option Node)
  stuck : List (Int × Node)
  deriving Repr

namespace DB

def empty : DB := ⟨[], []⟩

def lookup {β : Type} (v : Int) : List (Int × β) → Option β
  | [] => none
  | (w, x) :: rest => if w = v then some x else lookup v rest

/-- `ndb.hasVersion`: `db.Has(nodeKey(version, 1))` -/
def hasVersion (d : DB) (v : Int) : Bool :=
  (lookup v d.roots).isSome || (lookup v d.stuck).isSome

/-- `ndb.GetRoot` followed by `ndb.GetNode` -/
def getRoot (d : DB) (v : Int) : Except Err (Option Node) :=
  match lookup v d.roots with
  | some r => .ok r
  | none =>
    match lookup v d.stuck with
    | some leaf => .ok (some leaf)
    | none => .error .noVersion

/-- the greatest version of any node key in the database (`getLatestVersion`'s reverse
scan).  Every node reachable from a root is at most as new as that root, so the maximum is
taken by a `(v, 1)` key: a root entry or a surviving leaf key. -/
def latest (d : DB) : Int :=
  d.stuck.foldl (fun m p => max m p.1) (d.roots.foldl (fun m p => max m p.1) 0)

def insertRoot (v : Int) (r : Option Node) : List (Int × Option Node) → List (Int × Option Node)
  | [] => [(v, r)]
  | (w, x) :: rest =>
    if v < w then (v, r) :: (w, x) :: rest
    else if v = w then (v, r) :: rest
    else (w, x) :: insertRoot v r rest

def setRoot (d : DB) (v : Int) (r : Option Node) : DB :=
  { d with roots := insertRoot v r d.roots }

/-- delete every `(v, 1)` entry whose version `p` rejects -/
def restrict (p : Int → Bool) (d : DB) : DB :=
  { roots := d.roots.filter (fun q => p q.1), stuck := d.stuck.filter (fun q => p q.1) }

/-- the leaf `n` stays behind under the key `(v, 1)` -/
def addStuck (d : DB) (v : Int) (n : Node) : DB :=
  { d with stuck := d.stuck ++ [(v, n)] }

end DB

/-- `MutableTree` + `nodeDB` -/
structure St where
  db : DB
  /-- the write batch applied to `db`, if anything is pending -/
  pend : Option DB
  /-- `ndb.firstVersion`, `ndb.latestVersion` (0 = not known) -/
  first : Int
  latest : Int
  /-- `tree.ImmutableTree` (the working tree) -/
  root : Option Node
  version : Int
  /-- `tree.lastSaved` -/
  lsRoot : Option Node
  lsVersion : Int
  /-- `ndb.opts.InitialVersion`, `tree.initialVersionSet` -/
  optIV : Int
  ivSet : Bool
  deriving Repr

namespace St

/-- `NewMutableTree(db, …, InitialVersionOption(iv)?)` on a fresh database -/
def init (iv : Int) : St :=
  { db := DB.empty, pend := none, first := 0, latest := 0, root := none, version := 0,
    lsRoot := none, lsVersion := 0, optIV := iv, ivSet := iv ≠ 0 }

def batch (s : St) : DB := s.pend.getD s.db

/-- `ndb.Commit` -/
def commit (s : St) : St := { s with db := s.batch, pend := none }

/-- `ndb.getLatestVersion`: (found, version) -/
def getLatestVersion (s : St) : (Bool × Int) × St :=
  if s.latest > 0 then ((true, s.latest), s)
  else
    let l := s.db.latest
    if l > 0 then ((true, l), { s with latest := l })
    -- no v1 nodes: getLegacyLatestVersion = -1, not > 0
    else ((false, 0), s)

/-- the binary search of `getFirstVersion` -/
def searchFirst (d : DB) : Nat → Int → Int → Int
  | 0, _, latest => latest
  | fuel + 1, first, latest =>
    if first < latest then
      let version := (latest + first) / 2
      if d.hasVersion version then searchFirst d fuel first version
      else searchFirst d fuel (version + 1) latest
    else latest

/-- `ndb.getFirstVersion` -/
def getFirstVersion (s : St) : Int × St :=
  if s.first > 0 then (s.first, s)
  else
    let ((_, latest), s) := s.getLatestVersion
    let f := searchFirst s.db (latest.toNat + 1) 0 latest
    (f, { s with first := f })

/-- `MutableTree.VersionExists` -/
def versionExists (s : St) (v : Int) : Bool × St :=
  -- legacyLatestVersion = -1; `version <= -1` asks hasLegacyVersion, which is false
  if v ≤ -1 then (false, s)
  else
    let (first, s) := s.getFirstVersion
    let ((found, latest), s) := s.getLatestVersion
    if !found then (false, s) else (decide (first ≤ v ∧ v ≤ latest), s)

def intRange (lo : Int) : Nat → List Int
  | 0 => []
  | n + 1 => lo :: intRange (lo + 1) n

/-- `MutableTree.AvailableVersions` -/
def availableVersions (s : St) : List Int × St :=
  let (first, s) := s.getFirstVersion
  let ((_, latest), s) := s.getLatestVersion
  (intRange first (latest - first + 1).toNat, s)

/-- `MutableTree.WorkingVersion` -/
def workingVersion (s : St) : Int :=
  let v := s.version + 1
  if v = 1 ∧ s.ivSet then s.optIV else v

/-- `hashWithCount` on a possibly-nil root: the empty tree hashes to `H ""` -/
def rootHash (H : Bytes → Bytes) (wv : Int) : Option Node → Bytes
  | none => H []
  | some n => n.hash H wv

/-- `MutableTree.WorkingHash` -/
def workingHash (H : Bytes → Bytes) (s : St) : Bytes := rootHash H s.workingVersion s.root

/-- `MutableTree.Hash`: `lastSaved.Hash()` -/
def savedHash (H : Bytes → Bytes) (s : St) : Bytes := rootHash H (s.lsVersion + 1) s.lsRoot

/-- `MutableTree.Set`; `value = none` is Go's nil slice -/
def set (s : St) (key : Bytes) (value : Option Bytes) : Except Err (Bool × St) :=
  match value with
  | none => .error .nilValue
  | some v =>
    match s.root with
    | none => .ok (false, { s with root := some (Node.new key v) })
    | some n =>
      match n.set key v with
      | .error e => .error e
      | .ok (n', updated) => .ok (updated, { s with root := some n' })

/-- `MutableTree.Remove`: (value, removed) -/
def remove (s : St) (key : Bytes) : Except Err ((Option Bytes × Bool) × St) :=
  match s.root with
  | none => .ok ((none, false), s)
  | some n =>
    match n.remove key with
    | .error e => .error e
    | .ok (newRoot, _, value, removed) =>
      if !removed then .ok ((none, false), s)
      else .ok ((value, true), { s with root := newRoot })

/-- `MutableTree.Rollback` -/
def rollback (s : St) : St :=
  if s.version > 0 then { s with root := s.lsRoot, version := s.lsVersion }
  else { s with root := none, version := 0 }

/-- `MutableTree.GetImmutable`: root and version of the immutable tree -/
def getImmutable (s : St) (v : Int) : Except Err (Option Node) := s.db.getRoot v

/-- `(existingRoot == nil && tree.root == nil) || (existingRoot != nil && bytes.Equal(existingRoot.hash, newHash))` -/
def sameRoot (H : Bytes → Bytes) (version : Int) (existingRoot root : Option Node) (newHash : Bytes) : Bool :=
  match existingRoot, root with
  | none, none => true
  | some r, _ => decide (r.hash H version = newHash)
  | none, some _ => false

/-- `MutableTree.SaveVersion`: (hash, version).  State-changing operations that can
fail return the state reached together with the error (caches, `initialVersionSet`
and a partly filled batch survive an error in the code). -/
def saveVersion (H : Bytes → Bytes) (s : St) : Except Err (Bytes × Int) × St :=
  let version := s.workingVersion
  let s := { s with ivSet := false }
  let (ex, s) := s.versionExists version
  if ex then
    match s.db.getRoot version with
    | .error e => (.error e, s)
    | .ok existingRoot =>
      let newHash := s.workingHash H
      if sameRoot H version existingRoot s.root newHash then
        (.ok (newHash, version),
          { s with version := version, root := existingRoot, lsRoot := existingRoot, lsVersion := version })
      else (.error .diffHash, s)
  else
    let (root', b) : Option Node × DB :=
      match s.root with
      | none => (none, s.batch.setRoot version none)                         -- SaveEmptyRoot
      | some r =>
        match r.nk with
        | some _ => (some r, s.batch.setRoot version (some r))               -- SaveRoot: reference
        | none =>
          let r' := (Node.assignKeys version r 0).1                           -- saveNewNodes
          (some r', s.batch.setRoot version (some r'))
    let s := { s with pend := some b }.commit
    let s := { s with latest := version, version := version, root := root', lsRoot := root', lsVersion := version }
    (.ok (s.savedHash H, version), s)

/-- `MutableTree.LoadVersion`: the latest version of the database -/
def loadVersion (s : St) (target : Int) : Except Err Int × St :=
  let (first, s) := s.getFirstVersion
  if first > 0 ∧ first < s.optIV then (.error .initVer, s) else
  let ((ok, latest), s) := s.getLatestVersion
  if latest < target then (.error .target, s) else
  if !ok then
    if target ≤ 0 then (.ok 0, s) else (.error .empty, s)
  else
    let target := if target ≤ 0 then latest else target
    let (ex, s) := s.versionExists target
    if !ex then (.error .noVersion, s) else
    match s.db.getRoot target with
    | .error e => (.error e, s)
    | .ok r =>
      (.ok latest, { s with root := r, version := target, lsRoot := r, lsVersion := target })

/-- `ndb.DeleteVersionsFrom` -/
def deleteVersionsFrom (s : St) (fromVersion : Int) : St :=
  let ((_, latest), s) := s.getLatestVersion
  if latest < fromVersion then s
  else
    -- the range delete of every node key with version ≥ fromVersion
    { s with pend := some (s.batch.restrict (fun v => decide (v < fromVersion))), latest := fromVersion - 1 }

/-- `MutableTree.LoadVersionForOverwriting` (the protocol only calls it with `target ≥ 1`) -/
def loadVersionForOverwriting (s : St) (target : Int) : Except Err Unit × St :=
  match s.loadVersion target with
  | (.error e, s) => (.error e, s)
  | (.ok _, s) => (.ok (), (s.deleteVersionsFrom (target + 1)).commit)

/-- does the database key `(version, 1)` outlive `deleteVersion(version)`?  `prev` / `cur`
are the roots of `version` and `version + 1`.  Yes iff the root of `version` was written
under that key and the next version still holds that node as a child (then the root is a
single leaf); the node is returned. -/
def staysKey (version : Int) (prev cur : Option Node) : Option Node :=
  match prev with
  | none => none
  | some p =>
    if p.nk = some ⟨version, 1⟩ then
      match cur with
      | none => none
      | some c =>
        if c.nk = some ⟨version, 1⟩ then none          -- the next root itself: re-keyed to (version, 0)
        else if c.hasNodeKey ⟨version, 1⟩ then some p  -- shared as a child: the key stays
        else none                                      -- an orphan: deleted
    else none

/-- `ndb.deleteVersion`, abstracted (see the header): reads see `db`, writes go to the batch -/
def deleteVersion (s : St) (version : Int) : Except Err St :=
  match s.db.getRoot version with
  | .error e => .error e
  | .ok prev =>
    match s.db.getRoot (version + 1) with
    | .error e => .error e
    | .ok cur =>
      let b := s.batch.restrict (fun v => decide (v ≠ version))
      let b := match staysKey version prev cur with
        | some p => b.addStuck version p
        | none => b
      .ok { s with pend := some b }

/-- the loop of `ndb.deleteVersionsTo`: `for version := first; version <= toVersion; version++` -/
def deleteLoop (to : Int) : Nat → St → Int → Except Err Unit × St
  | 0, s, _ => (.ok (), s)
  | fuel + 1, s, version =>
    if version ≤ to then
      match s.deleteVersion version with
      | .error e => (.error e, s)
      | .ok s => deleteLoop to fuel { s with first := version + 1 } (version + 1)
    else (.ok (), s)

/-- `MutableTree.DeleteVersionsTo` -/
def deleteVersionsTo (s : St) (to : Int) : Except Err Unit × St :=
  -- legacyLatestVersion (-1) > toVersion: nothing to do (the caller still commits)
  if -1 > to then (.ok (), s.commit) else
  let (first, s) := s.getFirstVersion
  let ((_, latest), s) := s.getLatestVersion
  if latest ≤ to then (.error .latest, s) else
  match deleteLoop to ((to - first + 1).toNat) s first with
  | (.error e, s) => (.error e, s)
  | (.ok _, s) => (.ok (), s.commit)

/-- `MutableTree.GetVersioned` -/
def getVersioned (s : St) (key : Bytes) (v : Int) : Option Bytes × St :=
  let (ex, s) := s.versionExists v
  if ex then
    match s.db.getRoot v with
    | .error _ => (none, s)
    | .ok none => (none, s)
    | .ok (some n) => ((n.get key).2, s)
  else (none, s)

/-- close the tree and open the database again: `NewMutableTree` + `Load()` -/
def reopen (s : St) : Except Err Int × St :=
  let s' : St := { db := s.db, pend := none, first := 0, latest := 0, root := none, version := 0,
                   lsRoot := none, lsVersion := 0, optIV := s.optIV, ivSet := s.optIV ≠ 0 }
  s'.loadVersion 0

/-- `DeleteVersionsTo` behind the protocol guard: deleting the version the working tree
was loaded from, or a newer one, while still newer versions exist is refused (`none`).
The code has no such guard; without it the tree in memory points at deleted nodes and
what happens next depends on the node cache.  "Deletions of old versions" in the
property statement are the calls that pass it. -/
def deleteVersionsToGuarded (s : St) (to : Int) : Option (Except Err Unit) × St :=
  let ((_, latest), s) := s.getLatestVersion
  if s.version ≤ to ∧ to < latest then (none, s)
  else
    let (r, s) := s.deleteVersionsTo to
    (some r, s)

end St

/-! ## histories -/

/-- the state-changing operations of the protocol (`Drive/C30.lean`) -/
inductive Op where
  | set (key : Bytes) (value : Option Bytes)
  | remove (key : Bytes)
  | save
  | load (target : Int)
  | lvo (target : Int)          -- LoadVersionForOverwriting, `target ≥ 1` (ignored otherwise)
  | delto (to : Int)            -- DeleteVersionsTo behind the protocol guard
  | rollback
  | reopen
  deriving Repr

namespace St

/-- one operation; a failing operation leaves the state the code leaves -/
def step (H : Bytes → Bytes) (s : St) : Op → St
  | .set k v => match s.set k v with
    | .ok (_, s') => s'
    | .error _ => s
  | .remove k => match s.remove k with
    | .ok (_, s') => s'
    | .error _ => s
  | .save => (s.saveVersion H).2
  | .load v => (s.loadVersion v).2
  | .lvo v => if v < 1 then s else (s.loadVersionForOverwriting v).2
  | .delto v => (s.deleteVersionsToGuarded v).2
  | .rollback => s.rollback
  | .reopen => s.reopen.2

/-- a history -/
def run (H : Bytes → Bytes) (s : St) (ops : List Op) : St := ops.foldl (step H) s

end St
end GnoVerif.C30
