import GnoVerif.Model.C46Bip39
/-
Model.C46Armor — executable model of the ASCII armor used by
tm2/pkg/crypto/armor (EncodeArmor / DecodeArmor), i.e. of
golang.org/x/crypto/openpgp/armor {Encode, Decode} + io.ReadAll of the body,
as far as its behaviour on a complete in-memory input goes:

* `readLines`   — `bufio.Reader.ReadLine` with the 100-byte buffer `Decode`
                  allocates (long lines come back in pieces flagged `isPrefix`,
                  a trailing '\r' of a full buffer is pushed back);
* `skipGarbage` — the "skip leading garbage" loop, incl. `goto TryNextBlock`;
* `readHeaders` — header lines `Key: Value` (TrimSpace, first ": "), continuation
                  pieces appended untrimmed, a line without ": " restarts the search;
* `readBody`    — `lineReader` (END prefix, 5-byte `=XXXX` checksum line, 96-byte
                  limit) feeding the streaming base64 decoder chunk-wise (a chunk is
                  what has accumulated once ≥ 4 characters are buffered; padding is
                  only checked for trailing garbage inside its own chunk), CRC-24
                  checked at EOF only if a checksum line was seen;
* `encodeArmor` — BEGIN line, headers in the GIVEN order (the Go code ranges over
                  a map: the order is not determined), blank line, base64 in 64-column
                  lines, `=`+CRC line, END line without trailing newline.

Restrictions (enforced by driver and harness alike): input is ASCII (bytes
< 0x80: `bytes.TrimSpace` would also strip Unicode spaces) and at most
`maxArmorLen` bytes (then `io.ReadAll`'s first 512-byte buffer is never the
reason a line is handed to the base64 decoder in two pieces).
Core-only.
-/
namespace GnoVerif.C46

/-! ### base64 (StdEncoding: padded, non-strict) -/

def b64char (n : Nat) : UInt8 :=
  if n < 26 then UInt8.ofNat (65 + n)
  else if n < 52 then UInt8.ofNat (97 + (n - 26))
  else if n < 62 then UInt8.ofNat (48 + (n - 52))
  else if n = 62 then 43 else 47

/-- `decodeMap` -/
def b64val (c : UInt8) : Option Nat :=
  let n := c.toNat
  if 65 ≤ n ∧ n ≤ 90 then some (n - 65)
  else if 97 ≤ n ∧ n ≤ 122 then some (n - 97 + 26)
  else if 48 ≤ n ∧ n ≤ 57 then some (n - 48 + 52)
  else if n = 43 then some 62
  else if n = 47 then some 63
  else none

def b64enc : Bytes → Bytes
  | a :: b :: c :: r =>
    b64char (a.toNat / 4) :: b64char (a.toNat % 4 * 16 + b.toNat / 16) ::
    b64char (b.toNat % 16 * 4 + c.toNat / 64) :: b64char (c.toNat % 64) :: b64enc r
  | [a, b] =>
    [b64char (a.toNat / 4), b64char (a.toNat % 4 * 16 + b.toNat / 16), b64char (b.toNat % 16 * 4), 61]
  | [a] => [b64char (a.toNat / 4), b64char (a.toNat % 4 * 16), 61, 61]
  | [] => []

def isNL (b : UInt8) : Bool := b == 10 || b == 13

/-- the bytes `decodeQuantum` writes for `dlen` collected sextets -/
def quantumBytes (ds : List Nat) : Bytes :=
  match ds with
  | [s0, s1, s2, s3] =>
    let v := s0 * 262144 + s1 * 4096 + s2 * 64 + s3
    [UInt8.ofNat (v / 65536 % 256), UInt8.ofNat (v / 256 % 256), UInt8.ofNat (v % 256)]
  | [s0, s1, s2] =>
    let v := s0 * 262144 + s1 * 4096 + s2 * 64
    [UInt8.ofNat (v / 65536 % 256), UInt8.ofNat (v / 256 % 256)]
  | [s0, s1] =>
    let v := s0 * 262144 + s1 * 4096
    [UInt8.ofNat (v / 65536 % 256)]
  | _ => []

/-- `Encoding.Decode` of one in-memory chunk (StdEncoding).  `acc` holds the sextets of the
    quantum being collected (most recent first).  '\r' and '\n' are skipped.  `none` = any
    `CorruptInputError` (partial output is discarded by every caller). -/
def b64decodeAux : Bytes → List Nat → Option Bytes
  | [], acc => if acc.isEmpty then some [] else none
  | c :: r, acc =>
    match b64val c with
    | some d =>
      if acc.length = 3 then
        (b64decodeAux r []).map (quantumBytes (d :: acc).reverse ++ ·)
      else b64decodeAux r (d :: acc)
    | none =>
      if isNL c then b64decodeAux r acc
      else if c != 61 then none
      else
        -- padding
        match acc.length with
        | 2 =>
          -- expect a second '=' (newlines may intervene), then only newlines
          let r1 := r.dropWhile isNL
          match r1 with
          | [] => none
          | c2 :: r2 =>
            if c2 != 61 then none
            else if (r2.dropWhile isNL).isEmpty then some (quantumBytes acc.reverse) else none
        | 3 =>
          if (r.dropWhile isNL).isEmpty then some (quantumBytes acc.reverse) else none
        | _ => none

def b64decode (s : Bytes) : Option Bytes := b64decodeAux s []

/-! ### CRC-24 (RFC 4880 §6.1) -/

def crc24Init : Nat := 0xb704ce
def crc24Poly : Nat := 0x1864cfb

def crc24Bit (crc : Nat) : Nat :=
  let c := crc * 2
  if c &&& 0x1000000 != 0 then c ^^^ crc24Poly else c

def crc24Byte (crc : Nat) (b : UInt8) : Nat :=
  let c := crc ^^^ (b.toNat <<< 16)
  crc24Bit (crc24Bit (crc24Bit (crc24Bit (crc24Bit (crc24Bit (crc24Bit (crc24Bit c)))))))

/-- `crc24(crc24Init, d) & crc24Mask`.  The running value stays below 2^25 and bits ≥ 24 never
    influence bits < 24 of later steps other than through the explicit test, exactly as in the
    `uint32` code (which never masks either). -/
def crc24 (d : Bytes) : Nat := (d.foldl crc24Byte crc24Init) % 0x1000000

/-! ### bufio.ReadLine with a 100-byte buffer -/

def bufSize : Nat := 100

/-- look for '\n' among the first `fuel` bytes: `(bytes before it, bytes after it)` -/
def scanNL : Nat → Bytes → Option (Bytes × Bytes)
  | 0, _ => none
  | _, [] => none
  | n+1, b :: r =>
    if b == 10 then some ([], r)
    else match scanNL n r with
      | some (l, r') => some (b :: l, r')
      | none => none

theorem scanNL_lt (n : Nat) (s l r : Bytes) (h : scanNL n s = some (l, r)) : r.length < s.length := by
  induction n generalizing s l with
  | zero => simp [scanNL] at h
  | succ n ih =>
    cases s with
    | nil => simp [scanNL] at h
    | cons b t =>
      rw [scanNL] at h
      split at h
      · injection h with h; injection h with h1 h2; subst h2; simp
      · split at h
        · rename_i l' r' heq
          injection h with h; injection h with h1 h2; subst h2
          have := ih t l' heq
          simp only [List.length_cons]; omega
        · cases h

/-- drop one trailing '\r' -/
def stripCR (l : Bytes) : Bytes := if l.getLast? == some 13 then l.dropLast else l

/-- One `ReadLine` on a non-empty remaining input: `(line, isPrefix, rest)`. -/
def readLine1 (s : Bytes) : Bytes × Bool × Bytes :=
  match scanNL bufSize s with
  | some (l, r) => (stripCR l, false, r)
  | none =>
    if s.length ≥ bufSize then
      if (s.take bufSize).getLast? == some 13 then (s.take (bufSize - 1), true, s.drop (bufSize - 1))
      else (s.take bufSize, true, s.drop bufSize)
    else (s, false, [])

theorem readLine1_lt (s : Bytes) (h : s ≠ []) : (readLine1 s).2.2.length < s.length := by
  have hl : 0 < s.length := List.length_pos_iff.mpr h
  unfold readLine1
  split
  · rename_i l r heq
    exact scanNL_lt _ _ _ _ heq
  · simp only [bufSize]
    by_cases h1 : s.length ≥ 100
    · by_cases h2 : ((List.take 100 s).getLast? == some 13) = true
      · simp only [h1, h2, ↓reduceIte, List.length_drop]; omega
      · simp only [h1, h2, ↓reduceIte, Bool.false_eq_true, List.length_drop]; omega
    · simp only [h1, ↓reduceIte, List.length_nil]; exact hl

/-- all `ReadLine` results until EOF -/
def readLines (s : Bytes) : List (Bytes × Bool) :=
  if _h : s = [] then [] else
    let r := readLine1 s
    (r.1, r.2.1) :: readLines r.2.2
termination_by s.length
decreasing_by exact readLine1_lt s _h

/-! ### bytes.TrimSpace / prefixes (ASCII) -/

def trimSpace (s : Bytes) : Bytes :=
  ((s.dropWhile isSpace).reverse.dropWhile isSpace).reverse

def hasPrefix (s p : Bytes) : Bool := p.isPrefixOf s

/-- `bytes.Index(line, ": ")` -/
def indexColonSp : Bytes → Option Nat
  | 58 :: 32 :: _ => some 0
  | _ :: r => (indexColonSp r).map (· + 1)
  | [] => none

def armorStart : Bytes := [45,45,45,45,45,66,69,71,73,78,32]   -- "-----BEGIN "
def armorEnd : Bytes := [45,45,45,45,45,69,78,68,32]           -- "-----END "
def armorEOL : Bytes := [45,45,45,45,45]                       -- "-----"

/-! ### Decode -/

inductive ArmorErr where
  | eof        -- io.EOF: no armored block found / input ended inside the headers
  | corrupt    -- armor.ArmorCorrupt
  | b64        -- base64.CorruptInputError
  | ueof       -- io.ErrUnexpectedEOF (input ends inside a base64 quantum)
  deriving DecidableEq, Repr

/-- Go map assignment `m[k] = v` on an association list (first position kept) -/
def hdrSet (h : List (Bytes × Bytes)) (k v : Bytes) : List (Bytes × Bytes) :=
  match h with
  | [] => [(k, v)]
  | (k', v') :: r => if k' == k then (k, v) :: r else (k', v') :: hdrSet r k v

/-- Go map read `m[k]` ("" when absent) -/
def hdrGet (h : List (Bytes × Bytes)) (k : Bytes) : Bytes :=
  match h.find? (·.1 == k) with
  | some kv => kv.2
  | none => []

/-- state of the streaming base64 decoder: characters carried over (< 4) and decoded output -/
structure B64State where
  carry : Bytes
  out : Bytes

/-- hand one `lineReader.Read` result to the base64 stream decoder ('\r' filtered out first) -/
def b64Feed (st : B64State) (line : Bytes) : Option B64State :=
  let buf := st.carry ++ line.filter (fun b => !isNL b)
  if buf.length < 4 then some { st with carry := buf }
  else
    let nr := buf.length / 4 * 4
    match b64decode (buf.take nr) with
    | none => none
    | some bs => some { carry := buf.drop nr, out := st.out ++ bs }

/-- end of input for the decoder: `crc` is the value of the checksum line if one was seen -/
def b64Finish (st : B64State) (crc : Option Nat) : Except ArmorErr Bytes :=
  if !st.carry.isEmpty then .error .ueof
  else match crc with
    | some c => if c != crc24 st.out then .error .corrupt else .ok st.out
    | none => .ok st.out

/-- `lineReader.Read` + base64 decoder + `openpgpReader` over the remaining `ReadLine` results -/
def readBody : List (Bytes × Bool) → B64State → Except ArmorErr Bytes
  | [], st => b64Finish st none                        -- real EOF: no CRC to compare
  | (line, isPrefix) :: rest, st =>
    if isPrefix then .error .corrupt
    else if hasPrefix line armorEnd then b64Finish st none
    else if line.length = 5 && line.head? == some 61 then
      -- checksum line
      match b64decode (line.drop 1) with
      | none => .error .b64
      | some bs =>
        if bs.length ≠ 3 then readBody rest st          -- `m != 3`, err == nil: line ignored
        else
          match rest with
          | [] => .error .corrupt
          | (l2, _) :: _ =>
            if !hasPrefix l2 armorEnd then .error .corrupt
            else
              -- the decoder is told EOF first (carry check), then openpgpReader compares the CRC
              b64Finish st (some (fromBE bs))
    else if line.length > 96 then .error .corrupt
    else match b64Feed st line with
      | none => .error .b64
      | some st' => readBody rest st'

mutual
/-- the header loop of `Decode`; `cont` = previous piece had `isPrefix` -/
def readHeaders : List (Bytes × Bool) → Bytes → List (Bytes × Bytes) → Bool → Bytes →
    Except ArmorErr (Bytes × List (Bytes × Bytes) × Bytes)
  | [], _, _, _, _ => .error .eof
  | (line, isPrefix) :: rest, ty, hdrs, cont, lastKey =>
    if cont then
      readHeaders rest ty (hdrSet hdrs lastKey (hdrGet hdrs lastKey ++ line)) isPrefix lastKey
    else
      let line := trimSpace line
      if line.isEmpty then
        match readBody rest ⟨[], []⟩ with
        | .ok data => .ok (ty, hdrs, data)
        | .error e => .error e
      else match indexColonSp line with
        | none => skipGarbage rest false
        | some i => readHeaders rest ty (hdrSet hdrs (line.take i) (line.drop (i + 2))) isPrefix (line.take i)

/-- the "skip leading garbage" loop of `Decode`; `ign` = `ignoreNext` -/
def skipGarbage : List (Bytes × Bool) → Bool → Except ArmorErr (Bytes × List (Bytes × Bytes) × Bytes)
  | [], _ => .error .eof
  | (line, isPrefix) :: rest, ign =>
    if isPrefix || ign then skipGarbage rest isPrefix
    else
      let line := trimSpace line
      if line.length > armorStart.length + armorEOL.length && hasPrefix line armorStart then
        readHeaders rest ((line.drop armorStart.length).take (line.length - armorStart.length - armorEOL.length)) [] false []
      else skipGarbage rest false
end

def maxArmorLen : Nat := 600

/-- `armor.DecodeArmor(armorStr)`: `(blockType, headers, data)` -/
def decodeArmor (text : Bytes) : Except ArmorErr (Bytes × List (Bytes × Bytes) × Bytes) :=
  skipGarbage (readLines text) false

/-! ### Encode -/

/-- cut into pieces of `n` (the last one shorter, none empty) -/
def chunksOf (n : Nat) (s : Bytes) : List Bytes :=
  if h : n = 0 ∨ s = [] then [] else
    s.take n :: chunksOf n (s.drop n)
termination_by s.length
decreasing_by
  have : 0 < s.length := List.length_pos_iff.mpr (by intro e; exact h (Or.inr e))
  simp only [List.length_drop]; omega

def joinNL : List Bytes → Bytes
  | [] => []
  | [w] => w
  | w :: r => w ++ 10 :: joinNL r

def crcBytes (c : Nat) : Bytes := [UInt8.ofNat (c / 65536 % 256), UInt8.ofNat (c / 256 % 256), UInt8.ofNat (c % 256)]

/-- `armor.EncodeArmor(blockType, headers, data)` with the headers written in the given order -/
def encodeArmor (ty : Bytes) (hdrs : List (Bytes × Bytes)) (data : Bytes) : Bytes :=
  armorStart ++ ty ++ armorEOL ++ [10] ++
  (hdrs.map (fun kv => kv.1 ++ [58, 32] ++ kv.2 ++ [10])).flatten ++ [10] ++
  joinNL (chunksOf 64 (b64enc data)) ++
  [10, 61] ++ b64enc (crcBytes (crc24 data)) ++ [10] ++ armorEnd ++ ty ++ armorEOL

end GnoVerif.C46
