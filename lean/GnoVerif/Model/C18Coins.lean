import GnoVerif.Gen.C18Overflow
/-!
Model of `tm2/pkg/std/coin.go` (C18): `Coin`, `Coins`, the `AddUnsafe` merge,
`negative`, `SubUnsafe`, `Add`/`Sub`, `removeZeroCoins`, `validate`, the
comparison helpers, `String`, `ParseCoin(s)`.

Core-only (links into the driver).  The model mirrors the code that exists:

* a Go `string` is a byte sequence: `Denom = List UInt8`; `<`/`strings.Compare`
  are bytewise lexicographic (`cmpBytes`);
* `Coin.Amount` is an `int64`: `BitVec 64`; the overflow check of
  `Coin.AddUnsafe` is `overflow.Add`, REGENERATED from `overflow.go` into
  `Gen/C18Overflow.lean` by `gvx tint` (so a change of that file re-checks
  every theorem here);
* `negative` multiplies by `-1` with Go's wrapping `*` (so `MinInt64` stays
  `MinInt64` — see `Props/C18.lean`, `sub_minint64_*`);
* a Go panic is `Except.error <class>`.

Slices are modelled as immutable lists: the model has no notion of operand
identity (see `Model/C18Slices.lean` for the aliasing model of the append /
copy discipline, and the correspondence oracle for the real thing).
-/
namespace GnoVerif.C18
open GnoVerif

abbrev Denom := List UInt8

structure Coin where
  denom : Denom
  amount : BitVec 64
deriving DecidableEq, Repr, Inhabited

abbrev Coins := List Coin

/-- panic / error classes (canonical tokens of the line protocol). -/
inductive Err
  | overflow   -- "coin add overflow/underflow"
  | invalid    -- "invalid result: …" (Coins.Add / Coins.Sub) / parseCoins: invalid coins
  | denoms     -- "invalid coin denominations; a, b" (Coin.IsEqual / Coin.AddUnsafe)
  | denom      -- mustValidateDenom / ParseCoin's ValidateDenom
  | expr       -- ParseCoin: "invalid coin expression"
  | amount     -- ParseCoin: strconv.ParseInt range error
deriving DecidableEq, Repr

def Err.token : Err → String
  | .overflow => "overflow" | .invalid => "invalid" | .denoms => "denoms"
  | .denom => "denom" | .expr => "expr" | .amount => "amount"

/-! ### strings -/

/-- Go `strings.Compare(a, b)` (and the `<`, `==` operators on strings): bytewise lexicographic. -/
def cmpBytes : List UInt8 → List UInt8 → Ordering
  | [], [] => .eq
  | [], _ :: _ => .lt
  | _ :: _, [] => .gt
  | a :: as, b :: bs => if a < b then .lt else if b < a then .gt else cmpBytes as bs

/-- Go `a < b` on strings. -/
def dlt (a b : Denom) : Bool := cmpBytes a b == .lt

/-! ### int64 helpers -/

def i64Min : Int := -9223372036854775808
def i64Max : Int := 9223372036854775807
def inI64 (x : Int) : Prop := i64Min ≤ x ∧ x ≤ i64Max
instance (x : Int) : Decidable (inI64 x) := by unfold inI64; infer_instance

def Coin.isZero (c : Coin) : Bool := c.amount == 0#64
def Coin.isPositive (c : Coin) : Bool := decide (0 < c.amount.toInt)
def Coin.isNegative (c : Coin) : Bool := decide (c.amount.toInt < 0)

/-! ### denomination grammar

`reDnmString = [a-z\/][a-z0-9_.:\/\-]{2,}`; `validDenom` is its hand-rolled
byte scan; `ValidateDenom` adds `len(denom) ≤ MaxDenomLength`.  -/

def maxBaseDenomLength : Nat := 16
def pkgPathLimit : Nat := 256
/-- `len("/") + pkgPathLimit + len(":") + maxBaseDenomLength` = 274. -/
def maxDenomLength : Nat := 1 + pkgPathLimit + 1 + maxBaseDenomLength

def isLower (c : UInt8) : Bool := 97 ≤ c && c ≤ 122        -- 'a'..'z'
def isDigit (c : UInt8) : Bool := 48 ≤ c && c ≤ 57         -- '0'..'9'
/-- leading class `[a-z\/]` -/
def isDenomHead (c : UInt8) : Bool := isLower c || c == 47
/-- continuation class `[a-z0-9_.:\/\-]` -/
def isDenomTail (c : UInt8) : Bool :=
  isLower c || isDigit c || c == 95 || c == 46 || c == 58 || c == 47 || c == 45

/-- `validDenom`: `^reDnmString$`. -/
def validDenomRe : Denom → Bool
  | [] => false
  | c :: rest => decide (3 ≤ (c :: rest).length) && isDenomHead c && rest.all isDenomTail

/-- `ValidateDenom(denom) == nil`. -/
def validateDenom (d : Denom) : Bool :=
  if d.length > maxDenomLength then false else validDenomRe d

/-! ### Coin arithmetic -/

/-- `Coin.AddUnsafe`: panics on different denoms and on `!ok` of `overflow.Add`. -/
def Coin.addUnsafe (a b : Coin) : Except Err Coin :=
  if a.denom ≠ b.denom then .error .denoms else
  let r := Gen.C18.Add true a.amount b.amount
  if !r.2 then .error .overflow else .ok ⟨a.denom, r.1⟩

/-! ### Coins -/

/-- `removeZeroCoins` (non-destructive since the `fix:` commit): the argument without its zero coins. -/
def removeZeroCoins (cs : Coins) : Coins := cs.filter (fun c => !c.isZero)

/-- `Coins.AddUnsafe`: the merge loop as recursion on the two remaining tails
(`coins[indexA:]`, `coinsB[indexB:]`); the `sum = append(sum, …)` accumulator is
the list being returned. -/
def addUnsafe : Coins → Coins → Except Err Coins
  | [], [] => .ok []
  | [], b :: bs => .ok (removeZeroCoins (b :: bs))
  | a :: as, [] => .ok (removeZeroCoins (a :: as))
  | a :: as, b :: bs =>
    match cmpBytes a.denom b.denom with
    | .lt =>
      match addUnsafe as (b :: bs) with
      | .error e => .error e
      | .ok r => .ok (if a.isZero then r else a :: r)
    | .eq =>
      match a.addUnsafe b with
      | .error e => .error e
      | .ok res =>
        match addUnsafe as bs with
        | .error e => .error e
        | .ok r => .ok (if res.isZero then r else res :: r)
    | .gt =>
      match addUnsafe (a :: as) bs with
      | .error e => .error e
      | .ok r => .ok (if b.isZero then r else b :: r)
termination_by A B => A.length + B.length

/-- `Coins.negative`: `Amount: -1 * coin.Amount` with Go's wrapping multiplication. -/
def negative (cs : Coins) : Coins :=
  cs.map fun c => ⟨c.denom, BitVec.ofInt 64 (-1) * c.amount⟩

/-- `Coins.SubUnsafe`. -/
def subUnsafe (A B : Coins) : Except Err Coins := addUnsafe A (negative B)

/-- the loop of `Coins.validate` over `coins[1:]`, `low = lowDenom`. -/
def validateRest (low : Denom) : Coins → Bool
  | [] => true
  | c :: cs =>
    if !validateDenom c.denom then false
    else if dlt c.denom low then false          -- "coins not sorted"
    else if c.denom == low then false           -- "duplicate denom"
    else if !c.isPositive then false            -- "non-positive coin amount"
    else validateRest c.denom cs

/-- `Coins.validate() == nil` (= `IsValid`). -/
def validate : Coins → Bool
  | [] => true
  | c :: cs =>
    -- `case 1` and the `(Coins{coins[0]}).validate()` call of `default` are the same two tests
    if !validateDenom c.denom then false
    else if !c.isPositive then false
    else validateRest c.denom cs

/-- `Coins.Add`: `AddUnsafe`, then panic "invalid result" unless `validate`. -/
def add (A B : Coins) : Except Err Coins :=
  match addUnsafe A B with
  | .error e => .error e
  | .ok r => if validate r then .ok r else .error .invalid

/-- `Coins.Sub`. -/
def sub (A B : Coins) : Except Err Coins :=
  match subUnsafe A B with
  | .error e => .error e
  | .ok r => if validate r then .ok r else .error .invalid

/-! ### sort (`sort.Sort(coins)` with `Less(i,j) = coins[i].Denom < coins[j].Denom`)

Go's pdqsort is an insertion sort (stable) for `n ≤ 12`; the model is the
stable insertion sort.  For lists without duplicate denoms every sort gives
the same result; with duplicates the correspondence is limited to `n ≤ 12`. -/

def insertCoin (x : Coin) : Coins → Coins
  | [] => [x]
  | p :: ps => if dlt x.denom p.denom then x :: p :: ps else p :: insertCoin x ps

def sortCoins (cs : Coins) : Coins := cs.foldl (fun acc x => insertCoin x acc) []

/-! ### AmountOf and the comparison helpers -/

/-- the binary search of `Coins.AmountOf` (after `mustValidateDenom`). -/
def amountOfGo (cs : Coins) (d : Denom) : BitVec 64 :=
  match cs with
  | [] => 0#64
  | [c] => if c.denom = d then c.amount else 0#64
  | c0 :: c1 :: rest =>
    let all := c0 :: c1 :: rest
    let mid := all.length / 2
    match h : all[mid]? with
    | none => 0#64        -- unreachable: mid < len
    | some c =>
      if dlt d c.denom then amountOfGo (all.take mid) d
      else if d = c.denom then c.amount
      else amountOfGo (all.drop (mid + 1)) d
termination_by cs.length
decreasing_by
  all_goals simp only [List.length_take, List.length_drop, List.length_cons]
  all_goals omega

/-- `Coins.AmountOf`: panics on an invalid denom. -/
def amountOf (cs : Coins) (d : Denom) : Except Err (BitVec 64) :=
  if !validateDenom d then .error .denom else .ok (amountOfGo cs d)

/-- the loop of `DenomsSubsetOf`. -/
def denomsSubsetLoop (B : Coins) : Coins → Except Err Bool
  | [] => .ok true
  | c :: cs =>
    match amountOf B c.denom with
    | .error e => .error e
    | .ok a => if a == 0#64 then .ok false else denomsSubsetLoop B cs

/-- `coins.DenomsSubsetOf(coinsB)`. -/
def denomsSubsetOf (cs B : Coins) : Except Err Bool :=
  if cs.length > B.length then .ok false else denomsSubsetLoop B cs

def isAllGTLoop (A : Coins) : Coins → Except Err Bool
  | [] => .ok true
  | b :: bs =>
    match amountOf A b.denom with
    | .error e => .error e
    | .ok amountA => if amountA.sle b.amount then .ok false else isAllGTLoop A bs

/-- `coins.IsAllGT(coinsB)`. -/
def isAllGT (A B : Coins) : Except Err Bool :=
  if A.length = 0 then .ok false
  else if B.length = 0 then .ok true
  else
    match denomsSubsetOf B A with
    | .error e => .error e
    | .ok false => .ok false
    | .ok true => isAllGTLoop A B

def isAllGTELoop (A : Coins) : Coins → Except Err Bool
  | [] => .ok true
  | b :: bs =>
    match amountOf A b.denom with
    | .error e => .error e
    | .ok amountA => if amountA.slt b.amount then .ok false else isAllGTELoop A bs

/-- `coins.IsAllGTE(coinsB)`. -/
def isAllGTE (A B : Coins) : Except Err Bool :=
  if B.length = 0 then .ok true
  else if A.length = 0 then .ok false
  else isAllGTELoop A B

def isAllLT (A B : Coins) : Except Err Bool := isAllGT B A
def isAllLTE (A B : Coins) : Except Err Bool := isAllGTE B A

/-- loop of `IsAnyGT` (`strict = true`) / `IsAnyGTE` (`strict = false`). -/
def isAnyLoop (strict : Bool) (B : Coins) : Coins → Except Err Bool
  | [] => .ok false
  | c :: cs =>
    match amountOf B c.denom with
    | .error e => .error e
    | .ok amt =>
      if (if strict then amt.slt c.amount else amt.sle c.amount) && amt != 0#64 then .ok true
      else isAnyLoop strict B cs

def isAnyGT (A B : Coins) : Except Err Bool :=
  if B.length = 0 then .ok false else isAnyLoop true B A

def isAnyGTE (A B : Coins) : Except Err Bool :=
  if B.length = 0 then .ok false else isAnyLoop false B A

def isZero (cs : Coins) : Bool := cs.all Coin.isZero

def isAllPositive (cs : Coins) : Bool :=
  if cs.length = 0 then false else cs.all Coin.isPositive

def isAnyNegative (cs : Coins) : Bool := cs.any Coin.isNegative

/-- the pairwise loop of `Coins.IsEqual` (`Coin.IsEqual` panics on different denoms). -/
def isEqualLoop : Coins → Coins → Except Err Bool
  | a :: as, b :: bs =>
    if a.denom ≠ b.denom then .error .denoms
    else if a.amount ≠ b.amount then .ok false
    else isEqualLoop as bs
  | _, _ => .ok true

/-- `Coins.IsEqual`; also returns the two operands as left behind (`Sort` is in place). -/
def isEqualFull (A B : Coins) : Except Err Bool × Coins × Coins :=
  if A.length ≠ B.length then (.ok false, A, B)
  else
    let A' := sortCoins A
    let B' := sortCoins B
    (isEqualLoop A' B', A', B')

def isEqual (A B : Coins) : Except Err Bool := (isEqualFull A B).1

/-! ### String -/

/-- decimal digits of a natural number, most significant first (`strconv`/`%d`). -/
def decimalAux : Nat → Nat → List UInt8 → List UInt8
  | 0, _, acc => acc
  | fuel + 1, n, acc =>
    let acc' := UInt8.ofNat (48 + n % 10) :: acc
    if n / 10 = 0 then acc' else decimalAux fuel (n / 10) acc'

def decimal (n : Nat) : List UInt8 := decimalAux (n + 1) n []

/-- `fmt.Sprintf("%d", x)` for an int64. -/
def decimalInt (x : Int) : List UInt8 :=
  if x < 0 then 45 :: decimal x.natAbs else decimal x.natAbs

/-- `Coin.String`. -/
def Coin.str (c : Coin) : List UInt8 :=
  if c.isZero then [] else decimalInt c.amount.toInt ++ c.denom

/-- `Coins.String`: the coin strings joined by ",". -/
def joinComma : List (List UInt8) → List UInt8
  | [] => []
  | [s] => s
  | s :: rest => s ++ 44 :: joinComma rest

def str (cs : Coins) : List UInt8 := joinComma (cs.map Coin.str)

/-! ### Parsing -/

/-- ASCII white space: Go's `asciiSpace` table and RE2's `[[:space:]]` (`\t\n\v\f\r` and space). -/
def isAsciiSpace (c : UInt8) : Bool := (9 ≤ c && c ≤ 13) || c == 32

/-- If the string starts with (the UTF-8 encoding of) a `unicode.IsSpace` rune, its width.
The runes: ASCII space class, U+0085, U+00A0, U+1680, U+2000–U+200A, U+2028, U+2029,
U+202F, U+205F, U+3000.  Invalid UTF-8 decodes to `RuneError`, which is not a space. -/
def spacePrefix : List UInt8 → Option Nat
  | c :: rest =>
    if isAsciiSpace c then some 1 else
    match c, rest with
    | 0xC2, 0x85 :: _ => some 2
    | 0xC2, 0xA0 :: _ => some 2
    | 0xE1, 0x9A :: 0x80 :: _ => some 3
    | 0xE2, 0x80 :: x :: _ =>
      if (0x80 ≤ x && x ≤ 0x8A) || x == 0xA8 || x == 0xA9 || x == 0xAF then some 3 else none
    | 0xE2, 0x81 :: 0x9F :: _ => some 3
    | 0xE3, 0x80 :: 0x80 :: _ => some 3
    | _, _ => none
  | [] => none

/-- the same, read from the end (argument is the REVERSED string). -/
def spaceSuffixRev : List UInt8 → Option Nat
  | c :: rest =>
    if isAsciiSpace c then some 1 else
    match c, rest with
    | 0x85, 0xC2 :: _ => some 2
    | 0xA0, 0xC2 :: _ => some 2
    | 0x80, 0x9A :: 0xE1 :: _ => some 3
    | 0x80, 0x80 :: 0xE3 :: _ => some 3
    | 0x9F, 0x81 :: 0xE2 :: _ => some 3
    | x, 0x80 :: 0xE2 :: _ =>
      if (0x80 ≤ x && x ≤ 0x8A) || x == 0xA8 || x == 0xA9 || x == 0xAF then some 3 else none
    | _, _ => none
  | [] => none

def trimLeftAux : Nat → List UInt8 → List UInt8
  | 0, s => s
  | fuel + 1, s =>
    match spacePrefix s with
    | none => s
    | some k => trimLeftAux fuel (s.drop k)

def trimRightRevAux : Nat → List UInt8 → List UInt8
  | 0, s => s
  | fuel + 1, s =>
    match spaceSuffixRev s with
    | none => s
    | some k => trimRightRevAux fuel (s.drop k)

/-- `strings.TrimSpace`: strip leading, then trailing, Unicode white space. -/
def trimSpace (s : List UInt8) : List UInt8 :=
  let l := trimLeftAux s.length s
  (trimRightRevAux l.length l.reverse).reverse

/-- `strings.Split(s, ",")` (never returns an empty slice). -/
def splitComma : List UInt8 → List (List UInt8)
  | [] => [[]]
  | c :: rest =>
    match splitComma rest with
    | [] => [[c]]     -- unreachable
    | p :: ps => if c == 44 then [] :: p :: ps else (c :: p) :: ps

def digitsToNat (ds : List UInt8) : Nat :=
  ds.foldl (fun acc d => acc * 10 + (d.toNat - 48)) 0

/-- `ParseCoin`.  `reCoin = ^([[:digit:]]+)[[:space:]]*(reDnmString)$`: the three
classes are pairwise disjoint at the boundaries (a denom starts with `[a-z/]`),
so the match is the greedy split. -/
def parseCoin (s0 : List UInt8) : Except Err Coin :=
  let s := trimSpace s0
  if s.length > maxDenomLength + 20 then .error .expr else
  let digits := s.takeWhile isDigit
  let rest := s.dropWhile isDigit
  if digits.isEmpty then .error .expr else
  let denom := rest.dropWhile isAsciiSpace
  if !validDenomRe denom then .error .expr else
  let n := digitsToNat digits
  if n > 9223372036854775807 then .error .amount else
  if !validateDenom denom then .error .denom else
  -- NewCoin(denomStr, amount): validate cannot fail here (denom valid, amount ≥ 0)
  .ok ⟨denom, BitVec.ofNat 64 n⟩

def parseCoinList : List (List UInt8) → Except Err Coins
  | [] => .ok []
  | s :: ss =>
    match parseCoin s with
    | .error e => .error e
    | .ok c =>
      match parseCoinList ss with
      | .error e => .error e
      | .ok cs => .ok (c :: cs)

/-- `ParseCoins`. -/
def parseCoins (s0 : List UInt8) : Except Err Coins :=
  let s := trimSpace s0
  if s.isEmpty then .ok [] else
  match parseCoinList (splitComma s) with
  | .error e => .error e
  | .ok cs =>
    let sorted := sortCoins cs
    if validate sorted then .ok sorted else .error .invalid

end GnoVerif.C18
