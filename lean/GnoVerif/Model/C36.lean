/-
C36 — model of commit verification
  tm2/pkg/bft/types/validator_set.go : VerifyCommit, VerifyFutureCommit,
      TotalVotingPower/updateTotalVotingPower, GetByAddress (sort.Search), safeAddClip
  tm2/pkg/bft/types/block.go         : Commit.ValidateBasic, memoizeHeightRound,
      Commit.Height/Round, BlockID.IsZero/Equals

Abstractions (everything else is the code, statement by statement):
 * an address is a small id; ids are order-isomorphic to the real 20-byte
   addresses (the harness ranks the real addresses), so `Address.Compare`
   is `<`/`≤` on ids;
 * a block id is a small id, `0` is the zero BlockID (`IsZero`), `Equals` is `=`;
 * a signature is two Booleans carried by the entry:
     `sigOK`    — `vals[idx].PubKey.VerifyBytes(commit.VoteSignBytes(chainID, idx), sig)`
                  for the validator set being verified against (the "new" set),
     `sigOKOld` — the same check with the key of the OLD-set validator whose
                  address equals the entry's `ValidatorAddress` (false if none).
   `VoteSignBytes` takes type/height/round from the commit (memoized from the
   first non-nil entry) and block id / timestamp from the entry; it never
   contains `ValidatorAddress`/`ValidatorIndex`.  Both verifications happen
   only after `ValidateBasic` accepted, i.e. when every entry's own
   type/height/round equal the commit's, so "verifies over the entry's own
   sign bytes" (what the harness computes) is the same bit;
 * `int64` arithmetic is `Int` arithmetic followed by `wrap64`; Go `/` is `Int.tdiv`.
 * the commit is fresh: its memoized height/round are not stale.
Core-only.
-/
namespace GnoVerif.C36

/-- `math.MaxInt64`, `math.MinInt64`, `MaxTotalVotingPower = MaxInt64 / 8`. -/
def maxInt64 : Int := 9223372036854775807
def minInt64 : Int := -9223372036854775808
def maxTotalVotingPower : Int := Int.tdiv maxInt64 8

/-- Two's-complement wrap of an exact integer into `int64`. -/
def wrap64 (x : Int) : Int := (x + 9223372036854775808) % 18446744073709551616 - 9223372036854775808

/-- `safeAddClip(a, b)` for `a b` in `int64` range: the exact sum, clipped. -/
def safeAddClip (a b : Int) : Int :=
  let c := a + b
  if c > maxInt64 then maxInt64 else if c < minInt64 then minInt64 else c

structure Validator where
  addr  : Nat
  power : Int
deriving Repr, DecidableEq

abbrev ValSet := List Validator

/-- `SignedMsgType`: PrevoteType = 1, PrecommitType = 2. -/
def precommitType : Nat := 2

structure Entry where
  type     : Nat
  height   : Int
  round    : Int
  blockID  : Nat
  valIndex : Int
  valAddr  : Nat
  sigOK    : Bool
  sigOKOld : Bool
deriving Repr, DecidableEq

structure Commit where
  blockID    : Nat
  precommits : List (Option Entry)
deriving Repr, DecidableEq

/-- Error sites of the three functions, in source order. -/
inductive Err where
  | nilBlock        -- ValidateBasic: "Commit cannot be for nil block"
  | noPrecommits    -- ValidateBasic: "No precommits in commit"
  | vType           -- ValidateBasic: "invalid commit vote. Expected precommit"
  | vHeight         -- ValidateBasic: "invalid commit precommit height"
  | vRound          -- ValidateBasic: "invalid commit precommit round"
  | size            -- VerifyCommit: InvalidCommitPrecommitsError
  | height          -- VerifyCommit: InvalidCommitHeightError
  | blockID         -- VerifyCommit: "invalid commit -- wrong block id"
  | sig             -- VerifyCommit: "invalid commit -- invalid signature"
  | power           -- VerifyCommit: tooMuchChangeError
  | fHeight         -- VerifyFutureCommit: "Blocks don't match"
  | fRound          -- VerifyFutureCommit: "Invalid commit -- wrong round"
  | fType           -- VerifyFutureCommit: "Invalid commit -- not precommit"
  | fSig            -- VerifyFutureCommit: "Invalid commit -- invalid signature"
  | fPower          -- VerifyFutureCommit: tooMuchChangeError (old set)
  | panicTotalPower -- updateTotalVotingPower: panic "Total voting power should be guarded…"
  | panicNilVal     -- GetByIndex out of range → nil validator dereference (unreachable after the size check)
deriving Repr, DecidableEq

def Err.toString : Err → String
  | .nilBlock => "err:nilblock" | .noPrecommits => "err:noprecommits"
  | .vType => "err:vtype" | .vHeight => "err:vheight" | .vRound => "err:vround"
  | .size => "err:size" | .height => "err:height" | .blockID => "err:blockid"
  | .sig => "err:sig" | .power => "err:power"
  | .fHeight => "err:fheight" | .fRound => "err:fround" | .fType => "err:ftype"
  | .fSig => "err:fsig" | .fPower => "err:fpower"
  | .panicTotalPower => "panic:totalpower" | .panicNilVal => "panic:nilval"

abbrev Res := Except Err Unit

/-! ### ValidatorSet -/

/-- `updateTotalVotingPower`: clipped running sum, panic above the cap. -/
def updateTotalLoop : List Validator → Int → Except Err Int
  | [], sum => .ok sum
  | v :: vs, sum =>
    let sum := safeAddClip sum v.power
    if sum > maxTotalVotingPower then .error .panicTotalPower else updateTotalLoop vs sum

/-- `TotalVotingPower()`.  The cached field is either 0 (recompute) or the
value of the last recomputation over the same `Validators`; both give this. -/
def totalVotingPower (vals : ValSet) : Except Err Int := updateTotalLoop vals 0

/-- Go's `sort.Search(n, f)` — the loop of the standard library, `i, j := lo, hi`. -/
def sortSearch (f : Nat → Bool) (i j : Nat) : Nat :=
  if h : i < j then
    let m := (i + j) / 2          -- int(uint(i+j) >> 1)
    if !f m then sortSearch f (m + 1) j else sortSearch f i m
  else i
termination_by j - i
decreasing_by all_goals omega

/-- `GetByAddress`: binary search for the first `i` with `address ≤ Validators[i].Address`. -/
def getByAddress (vals : ValSet) (a : Nat) : Option (Nat × Validator) :=
  let idx := sortSearch (fun i => match vals[i]? with
                                   | some v => decide (a ≤ v.addr)
                                   | none => true) 0 vals.length
  match vals[idx]? with
  | some v => if v.addr = a then some (idx, v) else none
  | none => none

/-! ### Commit -/

/-- first non-nil precommit (what `memoizeHeightRound` looks for). -/
def firstNonNil : List (Option Entry) → Option Entry
  | [] => none
  | some e :: _ => some e
  | none :: es => firstNonNil es

/-- `commit.Height()` on a fresh commit: `memoizeHeightRound` returns early when
there are no slots or when a positive height is already memoized, else copies
height and round of the first non-nil precommit (0/0 when all are nil).  A
non-positive first height is simply re-read on every call, with the same result. -/
def Commit.height (c : Commit) : Int :=
  match firstNonNil c.precommits with
  | some e => e.height
  | none => 0

/-- `commit.Round()` on a fresh commit. -/
def Commit.round (c : Commit) : Int :=
  match firstNonNil c.precommits with
  | some e => e.round
  | none => 0

/-- The per-precommit loop of `ValidateBasic`. -/
def validateLoop (height round : Int) : List (Option Entry) → Res
  | [] => .ok ()
  | none :: es => validateLoop height round es
  | some e :: es =>
    if e.type ≠ precommitType then .error .vType
    else if e.height ≠ height then .error .vHeight
    else if e.round ≠ round then .error .vRound
    else validateLoop height round es

/-- `Commit.ValidateBasic`. -/
def validateBasic (c : Commit) : Res :=
  if c.blockID = 0 ∧ c.precommits.length = 0 then .ok ()
  else if c.blockID = 0 then .error .nilBlock
  else if c.precommits.length = 0 then .error .noPrecommits
  else validateLoop c.height c.round c.precommits

/-! ### VerifyCommit -/

/-- The signature/tally loop of `VerifyCommit`; the validator list advances in
step with `idx` (`vals.GetByIndex(idx)`). -/
def tallyLoop (blockID : Nat) : List Validator → List (Option Entry) → Int → Except Err Int
  | _, [], t => .ok t
  | [], none :: es, t => tallyLoop blockID [] es t
  | _ :: vs, none :: es, t => tallyLoop blockID vs es t
  | [], some _ :: _, _ => .error .panicNilVal
  | v :: vs, some e :: es, t =>
    if !e.sigOK then .error .sig
    else tallyLoop blockID vs es (if blockID = e.blockID then wrap64 (t + v.power) else t)

/-- `total*2/3` in int64. -/
def twoThirds (total : Int) : Int := Int.tdiv (wrap64 (total * 2)) 3

def verifyCommit (vals : ValSet) (blockID : Nat) (height : Int) (c : Commit) : Res :=
  match validateBasic c with
  | .error e => .error e
  | .ok _ =>
    if vals.length ≠ c.precommits.length then .error .size
    else if height ≠ c.height then .error .height
    else if blockID ≠ c.blockID then .error .blockID
    else match tallyLoop blockID vals c.precommits 0 with
      | .error e => .error e
      | .ok tallied =>
        match totalVotingPower vals with
        | .error e => .error e
        | .ok total => if tallied > twoThirds total then .ok () else .error .power

/-! ### VerifyFutureCommit -/

/-- The old-set loop of `VerifyFutureCommit`; `seen` holds old-set indices. -/
def futureLoop (old : ValSet) (blockID : Nat) (height round : Int) :
    List (Option Entry) → List Nat → Int → Except Err Int
  | [], _, p => .ok p
  | none :: es, seen, p => futureLoop old blockID height round es seen p
  | some e :: es, seen, p =>
    if e.height ≠ height then .error .fHeight
    else if e.round ≠ round then .error .fRound
    else if e.type ≠ precommitType then .error .fType
    else match getByAddress old e.valAddr with
      | none => futureLoop old blockID height round es seen p
      | some (oldIdx, val) =>
        if seen.contains oldIdx then futureLoop old blockID height round es seen p
        else if !e.sigOKOld then .error .fSig
        else futureLoop old blockID height round es (oldIdx :: seen)
               (if blockID = e.blockID then wrap64 (p + val.power) else p)

def verifyFutureCommit (old new : ValSet) (blockID : Nat) (height : Int) (c : Commit) : Res :=
  match verifyCommit new blockID height c with
  | .error e => .error e
  | .ok _ =>
    match futureLoop old blockID height c.round c.precommits [] 0 with
    | .error e => .error e
    | .ok oldPower =>
      match totalVotingPower old with
      | .error e => .error e
      | .ok total => if oldPower ≤ twoThirds total then .error .fPower else .ok ()

/-! ### The invariants `ValidatorSet` maintains (`updateWithChangeSet`) -/

def sumPowers (vals : ValSet) : Int := (vals.map (·.power)).sum

/-- strictly ascending addresses (sorted by address, no duplicates). -/
def sortedAddrs : List Validator → Bool
  | [] => true
  | [_] => true
  | a :: b :: rest => decide (a.addr < b.addr) && sortedAddrs (b :: rest)

/-- Every power positive (zero = removal, negative rejected), at most the cap,
total at most `MaxTotalVotingPower`, addresses strictly sorted. -/
def validSet (vals : ValSet) : Bool :=
  vals.all (fun v => decide (0 < v.power)) && decide (sumPowers vals ≤ maxTotalVotingPower) && sortedAddrs vals

def Res.toString : Res → String
  | .ok _ => "ok"
  | .error e => e.toString

end GnoVerif.C36
