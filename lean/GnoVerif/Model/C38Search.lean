import GnoVerif.Model.C38
/-
C38 (stage 2) — the autofile group the WAL writes through, and
`baseWAL.SearchForHeight`.

`Group` mirrors tm2/pkg/autofile/group.go as far as the WAL uses it:
`Write` (append to the head; rotate when `0 < headSizeLimit ≤ HeadSize`),
`RotateFile`, `ensureTotalSizeLimit` (INCLUDING its quirk: the loop re-reads
`MinIndex` after bumping it, so it removes indices min, min+2, … and can push
`MinIndex` past `MaxIndex`), and reading one file through
`NewReader(index, index+1)`.

`search` mirrors wal.go:272-436 statement by statement: backwards-exponential
probing from the last file, conversion to binary search, `idxoff` skipping of
files without a decisive marker, and the `panic("should not happen")`.
The returned reader covers ONLY the rest of the file in which the marker was
found (`NewReader(index, index+1)`), which is what `found rest` reports.
Core-only.
-/
namespace GnoVerif.C38

/-! ### autofile group -/

structure Group where
  files : List Bytes          -- contents of indices 0 … maxIndex (the last one is the head)
  minIndex : Nat
  totalSize : Nat
  headSize : Nat
  headLimit : Nat
  totalLimit : Nat
  deriving Repr

def Group.maxIndex (g : Group) : Nat := g.files.length - 1

def Group.new (headLimit totalLimit : Nat) : Group :=
  { files := [[]], minIndex := 0, totalSize := 0, headSize := 0, headLimit, totalLimit }

def Group.file (g : Group) (i : Nat) : Bytes := g.files.getD i []

/-- `ensureTotalSizeLimit`: at most `maxFilesToRemove = 4` rounds, `index := MinIndex + i`
with the CURRENT `MinIndex`. -/
def Group.prune (g : Group) : Nat → Nat → Group
  | 0, _ => g
  | fuel + 1, i =>
    if i ≥ 4 then g else
    let index := g.minIndex + i
    if g.totalSize < g.totalLimit then g
    else if index == g.maxIndex then g
    else if index < g.maxIndex then
      -- os.Stat ok, os.Remove ok
      Group.prune { g with minIndex := index + 1, totalSize := g.totalSize - (g.file index).length } fuel (i + 1)
    else
      -- no such file: "Failed to fetch info", MinIndex is bumped all the same
      Group.prune { g with minIndex := index + 1 } fuel (i + 1)

/-- `rotateFile` -/
def Group.rotate (g : Group) : Group :=
  let g' := { g with files := g.files ++ [[]], headSize := 0 }
  if g'.totalLimit == 0 then g' else g'.prune 4 0

def appendHead : List Bytes → Bytes → List Bytes
  | [], p => [p]
  | [f], p => [f ++ p]
  | f :: fs, p => f :: appendHead fs p

/-- `Group.Write` -/
def Group.write (g : Group) (p : Bytes) : Group :=
  let g' := { g with files := appendHead g.files p, totalSize := g.totalSize + p.length,
                     headSize := g.headSize + p.length }
  if 0 < g'.headLimit && g'.headLimit ≤ g'.headSize then g'.rotate else g'

/-- What the harness feeds a WAL: items, raw bytes, explicit rotations. -/
inductive WOp where
  | item (i : Item)
  | raw (b : Bytes)
  | rotate
  deriving Repr

def Group.apply (maxSize : Int) (g : Group) : WOp → Group
  | .item (.msg p) => if writerAccepts maxSize p then g.write (encodeMsg p) else g
  | .item (.mark h) => g.write (encodeMeta h)
  | .raw b => g.write b
  | .rotate => g.rotate

/-- `NewWAL` (+ `Start`, which writes `#{"h":"0"}` into an empty log), then the operations. -/
def buildGroup (maxSize : Int) (headLimit totalLimit : Nat) (start : Bool) (ops : List WOp) : Group :=
  let g0 := Group.new headLimit totalLimit
  let g1 := if start then g0.write (encodeMeta 0) else g0
  ops.foldl (Group.apply maxSize) g1

/-! ### SearchForHeight -/

inductive Mode where | backwards | binary
  deriving Repr, DecidableEq

inductive SearchRes where
  | found (rest : Bytes)
  | notFound
  | errCorrupt
  | errMeta
  | panicked            -- panic("should not happen")
  | fuelOut             -- model fuel exhausted (never observed; would be a non-terminating search)
  deriving Repr, DecidableEq

/-- First '\n'-terminated line and what follows it. -/
def nextLineAux (cur : Bytes) : Bytes → Option (Bytes × Bytes)
  | [] => none
  | b :: bs => if b == 10 then some (cur.reverse, bs) else nextLineAux (b :: cur) bs

def nextLine (bs : Bytes) : Option (Bytes × Bytes) := nextLineAux [] bs

inductive FileOutcome where
  | eof
  | errCorrupt
  | errMeta
  | earlier
  | later
  | found (rest : Bytes)
  deriving Repr

/-- FILE_LOOP over one file. `keep`: on a marker below the target keep reading (else leave). -/
def scanFile (cfg : Cfg) (ignore keep : Bool) (height : Int) : Nat → Bytes → FileOutcome
  | 0, _ => .eof
  | fuel + 1, bs =>
    match nextLine bs with
    | none => .eof
    | some (line, rest) =>
      match readLine cfg line with
      | .metaEof => .eof
      | .corrupt => if ignore then scanFile cfg ignore keep height fuel rest else .errCorrupt
      | .metaErr => .errMeta
      | .msg _ => scanFile cfg ignore keep height fuel rest
      | .mark m =>
        if height < m then .earlier
        else if m == height then .found rest
        else if keep then scanFile cfg ignore keep height fuel rest
        else .later

structure SState where
  minVal : Int
  maxVal : Int
  mode : Mode
  backoff : Int
  idxoff : Int
  deriving Repr

def searchLoop (cfg : Cfg) (g : Group) (ignore : Bool) (height : Int) : Nat → SState → SearchRes
  | 0, _ => .fuelOut
  | fuel + 1, s =>
    if ¬ (s.minVal ≤ s.maxVal) then .notFound else
    match s.mode with
    | .backwards =>
      let index := s.maxVal + s.backoff + s.idxoff
      if s.maxVal < index then
        searchLoop cfg g ignore height fuel
          { s with idxoff := 0, maxVal := s.maxVal + s.backoff - 1,
                   backoff := if s.backoff == 0 then -1 else s.backoff * 2 }
      else if index < s.minVal then .panicked
      else
        let file := g.file index.toNat
        match scanFile cfg ignore (s.backoff == 0) height (file.length + 1) file with
        | .eof => searchLoop cfg g ignore height fuel { s with idxoff := s.idxoff + 1 }
        | .errCorrupt => .errCorrupt
        | .errMeta => .errMeta
        | .found rest => .found rest
        | .earlier =>
          let maxVal := if s.backoff == 0 then s.maxVal - 1 else s.maxVal + s.backoff
          let backoff := if s.backoff == 0 then (-1 : Int) else s.backoff * 2
          if maxVal + backoff * 2 ≤ s.minVal then
            searchLoop cfg g ignore height fuel { s with idxoff := 0, maxVal, backoff := 0, mode := .binary }
          else
            searchLoop cfg g ignore height fuel { s with idxoff := 0, maxVal, backoff }
        | .later =>
          searchLoop cfg g ignore height fuel { s with idxoff := 0, backoff := 0, minVal := index, mode := .binary }
    | .binary =>
      let mid := (s.minVal + s.maxVal + 1).tdiv 2
      let index := mid + s.idxoff
      if s.maxVal < index then
        searchLoop cfg g ignore height fuel { s with idxoff := 0, maxVal := mid - 1 }
      else
        let file := g.file index.toNat
        match scanFile cfg ignore (¬ (index < s.maxVal)) height (file.length + 1) file with
        | .eof => searchLoop cfg g ignore height fuel { s with idxoff := s.idxoff + 1 }
        | .errCorrupt => .errCorrupt
        | .errMeta => .errMeta
        | .found rest => .found rest
        | .earlier => searchLoop cfg g ignore height fuel { s with idxoff := 0, maxVal := mid - 1 }
        | .later => searchLoop cfg g ignore height fuel { s with idxoff := 0, minVal := index }

/-- `mode`: 0 = default (backwards), 1 = backwards, 2 = binary. -/
def search (cfg : Cfg) (g : Group) (mode : Nat) (ignore : Bool) (height : Int) : SearchRes :=
  let n := g.files.length
  searchLoop cfg g ignore height (8 * (n + 4) * (n + 4) + 64)
    { minVal := g.minIndex, maxVal := g.maxIndex, mode := if mode == 2 then .binary else .backwards,
      backoff := 0, idxoff := 0 }

end GnoVerif.C38
