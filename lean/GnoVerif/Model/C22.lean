/-
Model for C22: tm2/pkg/store/cache (cacheStore, memIterator, cacheMergeIterator),
tm2/pkg/store/prefix (Store, prefixIterator), over a dbadapter/memdb base.

The model mirrors the code as it exists (gas context = nil everywhere, so
`chargedGas` and the gas iterator are not modelled):

* `CValue`          = cache.cValue{value, deleted, dirty}           (store.go:30)
* `CacheState`      = cacheStore{cache, unsortedCache, sortedCache, checkpointCache}
                       Go maps are kept as sorted association lists (their
                       iteration order is never observable: every loop over a
                       map is followed by a sort).
* `Layer`           = a *stack* of stores: `base` (dbadapter.Store over memdb),
                       `cache c parent`, `pfx prefix parent`.
* `Layer.get/set/del/has` on non-nil keys; `api*` add the nil-key / nil-value
                       behaviour of the outermost store (`panic:nilkey`, `panic:nilvalue`;
                       memdb treats nil as empty).
* `dirtyItems`, `mergeSorted`, `memItems`  = store.go:417-453, memiterator.go:19-40
* `skipCacheDeletes`, `skipUntil`, `drain`      = mergeiterator.go (skipUntilExistsOrInvalid,
                       Valid/Key/Value/Next as used by a `for ; Valid(); Next()` loop)
* `Layer.iter`      = Iterator / ReverseIterator of each store kind
* `Layer.write`, `cp`, `wcp`               = Write (store.go:250-308), Checkpoint /
                       WriteCheckpoint (store.go:342-369)
* `Op`, `step`, `run` = the operation language driven by the harness.

Core-only.
-/
import GnoVerif.Spec.OMap

namespace GnoVerif.C22
open GnoVerif GnoVerif.Lex

/-- cache.cValue.  `value = none` is Go's nil. -/
structure CValue where
  value : Option Bytes
  deleted : Bool
  dirty : Bool
deriving DecidableEq, Repr

/-- an iterator item / std.KVPair: key and value (`none` = nil = "deleted" marker
in the cache's sorted item list). -/
abbrev Item := Bytes × Option Bytes

structure CacheState where
  /-- `cache map[string]*cValue` -/
  cache : OMapOf CValue
  /-- `unsortedCache map[string]struct{}` -/
  unsorted : OMapOf Unit
  /-- `sortedCache *list.List` of `*std.KVPair`, ascending -/
  sorted : List Item
  /-- `checkpointCache` (nil = no checkpoint) -/
  checkpoint : Option (OMapOf CValue)
deriving Repr

def CacheState.empty : CacheState := ⟨[], [], [], none⟩

inductive Layer where
  | base (m : OMap)
  | cache (c : CacheState) (parent : Layer)
  | pfx (p : Bytes) (parent : Layer)
deriving Repr

/-- store.go:459 `setCacheValue`. -/
def setCacheValue (c : CacheState) (k : Bytes) (v : Option Bytes) (deleted dirty : Bool) : CacheState :=
  { c with
    cache := OMap.set c.cache k ⟨v, deleted, dirty⟩
    unsorted := if dirty then OMap.set c.unsorted k () else c.unsorted }

namespace Layer

/-- `Get` on a non-nil key.  A cache miss fetches from the parent and records a
clean entry (store.go:131-166); a hit returns the cached value whatever the
parent now holds. -/
def get : Layer → Bytes → Option Bytes × Layer
  | base m, k => (OMap.get m k, base m)
  | cache c p, k =>
    match OMap.get c.cache k with
    | some cv => (cv.value, cache c p)
    | none =>
      let r := p.get k
      (r.1, cache (setCacheValue c k r.1 false false) r.2)
  | pfx q p, k =>
    let r := p.get (q ++ k)
    (r.1, pfx q r.2)

/-- `Set` on a non-nil key with a non-nil value. -/
def set : Layer → Bytes → Bytes → Layer
  | base m, k, v => base (OMap.set m k v)
  | cache c p, k, v => cache (setCacheValue c k (some v) false true) p
  | pfx q p, k, v => pfx q (p.set (q ++ k) v)

/-- `Delete` on a non-nil key. -/
def del : Layer → Bytes → Layer
  | base m, k => base (OMap.del m k)
  | cache c p, k => cache (setCacheValue c k none true true) p
  | pfx q p, k => pfx q (p.del (q ++ k))

/-- `Has`: dbadapter asks the DB, cacheStore is `Get != nil`, prefix delegates. -/
def has : Layer → Bytes → Bool × Layer
  | base m, k => ((OMap.get m k).isSome, base m)
  | cache c p, k => let r := (cache c p).get k; (r.1.isSome, r.2)
  | pfx q p, k => let r := p.has (q ++ k); (r.1, pfx q r.2)

end Layer

/-! ## dirty items and the memIterator -/

/-- the merge loop of `dirtyItems` (store.go:433-452): `u` = the sorted slice of
unsorted items, second argument = `sortedCache`. -/
def mergeSorted : List Item → List Item → List Item
  | [], s => s
  | u :: us, [] => u :: us
  | u :: us, x :: xs =>
    match cmp u.1 x.1 with
    | .lt => u :: mergeSorted us (x :: xs)        -- InsertBefore(uitem, e)
    | .gt => x :: mergeSorted (u :: us) xs        -- e = e.Next()
    | .eq => u :: mergeSorted us xs               -- e.Value = uitem; e = e.Next()

/-- `store.cache[key].value` as read by `dirtyItems` (store.go:421-423). -/
def valueOf (c : CacheState) (k : Bytes) : Option Bytes := ((OMap.get c.cache k).map (·.value)).join

/-- `dirtyItems(start, end)` (store.go:417): the unsorted keys inside the domain
are removed from `unsortedCache`, paired with their current cache value, sorted,
and merged into `sortedCache`. -/
def dirtyItems (c : CacheState) (s e : Option Bytes) : CacheState :=
  let moved := c.unsorted.filter (fun p => inDomain p.1 s e)
  let items : List Item := moved.map (fun p => (p.1, valueOf c p.1))
  { c with
    unsorted := c.unsorted.filter (fun p => !inDomain p.1 s e)
    sorted := mergeSorted items c.sorted }

/-- `newMemIterator` (memiterator.go:19): the first contiguous run of items that
are in the domain (`entered` / `break`). -/
def memItems (s e : Option Bytes) : List Item → Bool → List Item
  | [], _ => []
  | x :: xs, entered =>
    if !inDomain x.1 s e then (if entered then [] else memItems s e xs false)
    else x :: memItems s e xs true

/-! ## cacheMergeIterator

State = the remaining items of the parent iterator and of the cache iterator, in
iteration order (for a descending iterator both lists are descending). -/

/-- mergeiterator.go:160 `compare`. -/
def cmpDir (asc : Bool) (a b : Bytes) : Ordering :=
  if asc then cmp a b else (cmp a b).swap

theorem cmpDir_swap (asc : Bool) (a b : Bytes) : (cmpDir asc a b).swap = cmpDir asc b a := by
  unfold cmpDir
  cases asc
  · simp only [Bool.false_eq_true, if_false, cmp_swap]
  · simp only [if_true, cmp_swap]

/-- the loop condition of `skipCacheDeletes`: the cache item is a delete marker
(`Value() == nil`) and lies before `upto` (`upto == nil`: no limit). -/
def skippable (asc : Bool) (upto : Option Bytes) (c : Item) : Bool :=
  c.2.isNone && (match upto with | none => true | some u => cmpDir asc c.1 u == .lt)

/-- mergeiterator.go:172 `skipCacheDeletes(until)`. -/
def skipCacheDeletes (asc : Bool) (upto : Option Bytes) : List Item → List Item
  | [] => []
  | c :: cs => if skippable asc upto c then skipCacheDeletes asc upto cs else c :: cs

theorem skipCacheDeletes_length_le (asc : Bool) (u : Option Bytes) (cs : List Item) :
    (skipCacheDeletes asc u cs).length ≤ cs.length := by
  induction cs with
  | nil => simp [skipCacheDeletes]
  | cons c cs ih =>
    simp only [skipCacheDeletes]
    split
    · simp only [List.length_cons]; omega
    · simp

theorem skippable_of_gt (asc : Bool) (u : Bytes) (c : Item)
    (h1 : c.2.isNone = true) (h2 : cmpDir asc u c.1 = .gt) : skippable asc (some u) c = true := by
  have h3 : cmpDir asc c.1 u = .lt := by rw [← cmpDir_swap, h2]; rfl
  simp [skippable, h1, h3]

theorem skipCacheDeletes_length_lt (asc : Bool) (u : Bytes) (c : Item) (cs : List Item)
    (h1 : c.2.isNone = true) (h2 : cmpDir asc u c.1 = .gt) :
    (skipCacheDeletes asc (some u) (c :: cs)).length < (c :: cs).length := by
  simp only [skipCacheDeletes, skippable_of_gt asc u c h1 h2, if_true, List.length_cons]
  have := skipCacheDeletes_length_le asc (some u) cs
  omega

/-- mergeiterator.go:183 `skipUntilExistsOrInvalid` (the returned pair is the
iterator state afterwards; the Go return value is "parent or cache valid"). -/
def skipUntil (asc : Bool) : List Item → List Item → List Item × List Item
  | [], cs => ([], skipCacheDeletes asc none cs)
  | p :: ps, [] => (p :: ps, [])
  | p :: ps, c :: cs =>
    match h : cmpDir asc p.1 c.1 with
    | .lt => (p :: ps, c :: cs)
    | .eq => if c.2.isNone then skipUntil asc ps cs else (p :: ps, c :: cs)
    | .gt =>
      if h2 : c.2.isNone then skipUntil asc (p :: ps) (skipCacheDeletes asc (some p.1) (c :: cs))
      else (p :: ps, c :: cs)
termination_by ps cs => ps.length + cs.length
decreasing_by
  · simp only [List.length_cons]; omega
  · have := skipCacheDeletes_length_lt asc p.1 c cs h2 h
    simp only [List.length_cons] at this ⊢; omega

theorem skip_length_le (asc : Bool) (ps cs : List Item) :
    (skipUntil asc ps cs).1.length ≤ ps.length ∧ (skipUntil asc ps cs).2.length ≤ cs.length := by
  fun_induction skipUntil asc ps cs with
  | case1 cs => exact ⟨Nat.le_refl _, skipCacheDeletes_length_le _ _ _⟩
  | case2 p ps => simp
  | case3 p ps c cs h => simp
  | case4 p ps c cs h hn ih => simp only [List.length_cons]; omega
  | case5 p ps c cs h hn => simp
  | case6 p ps c cs h hn ih =>
    have := skipCacheDeletes_length_lt asc p.1 c cs hn h
    simp only [List.length_cons] at this ih ⊢; omega
  | case7 p ps c cs h hn => simp

/-- the items produced by `for ; it.Valid(); it.Next() { it.Key(), it.Value() }`
on a cacheMergeIterator.  `Valid`, `Key`, `Value` and `Next` all start with
`skipUntilExistsOrInvalid`, which is idempotent, so one `skipUntil` per round. -/
def drain (asc : Bool) (ps cs : List Item) : List Item :=
  match h : skipUntil asc ps cs with
  | ([], []) => []
  | ([], c :: cs') => c :: drain asc [] cs'              -- parent invalid: cache key/value; cache.Next()
  | (p :: ps', []) => p :: drain asc ps' []              -- cache invalid: parent key/value; parent.Next()
  | (p :: ps', c :: cs') =>
    match cmpDir asc p.1 c.1 with
    | .lt => p :: drain asc ps' (c :: cs')               -- parent.Next()
    | .eq => (p.1, c.2) :: drain asc ps' cs'             -- key = keyP, value = cache.Value(); both Next()
    | .gt => c :: drain asc (p :: ps') cs'               -- cache.Next()
termination_by ps.length + cs.length
decreasing_by
  all_goals
    have := skip_length_le asc ps cs
    rw [h] at this
    simp only [List.length_cons, List.length_nil] at this ⊢
    omega

/-! ## iterators of each store -/

/-- prefix/store.go:79 `newstart = cloneAppend(prefix, start)` (a nil start is empty). -/
def pfxStart (q : Bytes) (s : Option Bytes) : Option Bytes := some (q ++ s.getD [])

/-- prefix/store.go:81-86 `newend`: `cpIncr(prefix)` for a nil end, else `prefix ++ end`. -/
def pfxEnd (q : Bytes) (e : Option Bytes) : Option Bytes :=
  match e with
  | none => prefixEnd q
  | some e => some (q ++ e)

namespace Layer

/-- `Iterator` (`asc = true`) / `ReverseIterator`, fully drained. The second
component is the store afterwards (`dirtyItems` reorganises the cache's
sorted/unsorted item sets). -/
def iter : Layer → Option Bytes → Option Bytes → Bool → List Item × Layer
  | base m, s, e, asc => ((OMap.range m s e asc).map (fun p => (p.1, some p.2)), base m)
  | cache c p, s, e, asc =>
    let r := p.iter s e asc
    let c' := dirtyItems c s e
    let items := memItems s e c'.sorted false
    let cs := if asc then items else items.reverse
    (drain asc r.1 cs, cache c' r.2)
  | pfx q p, s, e, asc =>
    let r := p.iter (pfxStart q s) (pfxEnd q e) asc
    (((r.1.takeWhile (fun it => hasPrefix q it.1)).map (fun it => (it.1.drop q.length, it.2))), pfx q r.2)

/-- the loop body of `writeLocked` (store.go:276-303), keys in sorted order. -/
def applyEntries : Layer → List (Bytes × CValue) → Layer
  | p, [] => p
  | p, (k, cv) :: rest =>
    if !cv.dirty then applyEntries p rest
    else if cv.deleted then applyEntries (p.del k) rest
    else match cv.value with
      | none => applyEntries p rest                 -- "Skip, it already doesn't exist in parent."
      | some v => applyEntries (p.set k v) rest

end Layer

/-! ## API level: nil keys / values, Write, checkpoints -/

inductive Out where
  | ok
  | val (v : Option Bytes)
  | bool (b : Bool)
  | items (l : List Item)
  | panic (cls : String)
  | err (cls : String)
deriving Repr, DecidableEq

namespace Layer

def isBase : Layer → Bool
  | base _ => true
  | _ => false

def apiGet (l : Layer) (k : Option Bytes) : Out × Layer :=
  match l, k with
  | base m, k => let r := (base m).get (k.getD []); (.val r.1, r.2)    -- memdb: nil key = empty key
  | l, none => (.panic "nilkey", l)
  | l, some k => let r := l.get k; (.val r.1, r.2)

def apiHas (l : Layer) (k : Option Bytes) : Out × Layer :=
  match l, k with
  | base m, k => let r := (base m).has (k.getD []); (.bool r.1, r.2)
  | l, none => (.panic "nilkey", l)
  | l, some k => let r := l.has k; (.bool r.1, r.2)

def apiSet (l : Layer) (k v : Option Bytes) : Out × Layer :=
  match l, k, v with
  | base m, k, v => (.ok, (base m).set (k.getD []) (v.getD []))        -- memdb: nil value = empty value
  | l, none, _ => (.panic "nilkey", l)
  | l, some _, none => (.panic "nilvalue", l)
  | l, some k, some v => (.ok, l.set k v)

def apiDel (l : Layer) (k : Option Bytes) : Out × Layer :=
  match l, k with
  | base m, k => (.ok, (base m).del (k.getD []))
  | l, none => (.panic "nilkey", l)
  | l, some k => (.ok, l.del k)

def apiIter (l : Layer) (s e : Option Bytes) (asc : Bool) : Out × Layer :=
  let r := l.iter s e asc
  (.items r.1, r.2)

/-- `Write` (store.go:250): only a cacheStore can be written; dbadapter and
prefix stores panic. -/
def apiWrite : Layer → Out × Layer
  | cache c p => (.ok, cache .empty (p.applyEntries c.cache))
  | l => (.panic "write", l)

/-- `Checkpoint` (store.go:342): `checkpointCache = maps.Clone(cache)`. -/
def apiCp : Layer → Out × Layer
  | cache c p => (.ok, cache { c with checkpoint := some c.cache } p)
  | l => (.err "notcache", l)

/-- `WriteCheckpoint` (store.go:358): panics without a checkpoint; otherwise
`cache = checkpointCache` and then `writeLocked()` (which also clears). -/
def apiWcp : Layer → Out × Layer
  | cache c p =>
    match c.checkpoint with
    | none => (.panic "nocheckpoint", cache c p)
    | some ck => (.ok, cache .empty (p.applyEntries ck))
  | l => (.err "notcache", l)

def apiHasCp : Layer → Out × Layer
  | cache c p => (.bool c.checkpoint.isSome, cache c p)
  | l => (.err "notcache", l)

/-- apply `f` to the store `d` levels below the top. -/
def at' (f : Layer → Out × Layer) : Nat → Layer → Out × Layer
  | 0, l => f l
  | _ + 1, base m => (.err "badlayer", base m)
  | d + 1, cache c p => let r := at' f d p; (r.1, cache c r.2)
  | d + 1, pfx q p => let r := at' f d p; (r.1, pfx q r.2)

def height : Layer → Nat
  | base _ => 1
  | cache _ p => p.height + 1
  | pfx _ p => p.height + 1

/-- the store `d` levels below the top. -/
def sub : Nat → Layer → Option Layer
  | 0, l => some l
  | _ + 1, base _ => none
  | d + 1, cache _ p => sub d p
  | d + 1, pfx _ p => sub d p

end Layer

/-- the operation language (`d` = depth below the top of the stack). -/
inductive Op where
  | newCache
  | newPfx (q : Bytes)
  | get (d : Nat) (k : Option Bytes)
  | has (d : Nat) (k : Option Bytes)
  | set (d : Nat) (k v : Option Bytes)
  | del (d : Nat) (k : Option Bytes)
  | iter (d : Nat) (asc : Bool) (s e : Option Bytes)
  | write (d : Nat)
  | cp (d : Nat)
  | wcp (d : Nat)
  | hascp (d : Nat)
deriving Repr

def step (l : Layer) : Op → Out × Layer
  | .newCache => (.ok, .cache .empty l)
  | .newPfx q => (.ok, .pfx q l)
  | .get d k => Layer.at' (fun x => x.apiGet k) d l
  | .has d k => Layer.at' (fun x => x.apiHas k) d l
  | .set d k v => Layer.at' (fun x => x.apiSet k v) d l
  | .del d k => Layer.at' (fun x => x.apiDel k) d l
  | .iter d asc s e => Layer.at' (fun x => x.apiIter s e asc) d l
  | .write d => Layer.at' Layer.apiWrite d l
  | .cp d => Layer.at' Layer.apiCp d l
  | .wcp d => Layer.at' Layer.apiWcp d l
  | .hascp d => Layer.at' Layer.apiHasCp d l

/-- run a history, collecting the outputs. -/
def run (l : Layer) : List Op → List Out × Layer
  | [] => ([], l)
  | op :: ops =>
    let r := step l op
    let rest := run r.2 ops
    (r.1 :: rest.1, rest.2)

end GnoVerif.C22
