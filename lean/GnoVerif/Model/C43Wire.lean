/-
C43 — wire format of tm2/pkg/p2p/conn/connection.go's packets.

`Packet` is the Go interface {PacketPing, PacketPong, PacketMsg}; on the wire every packet is
`amino.MarshalAnySized(packet)`:

    uvarint(len(body)) ++ body
    body  = 0a uvarint(len url) url  [ 12 uvarint(len value) value ]      -- google.protobuf.Any
    url   = "/p2p.Ping" | "/p2p.Pong" | "/p2p.Msg"                        -- package.go
    value = [08 uvarint(ChannelID)] [10 uvarint(EOF)] [1a uvarint(len Bytes) Bytes]   -- pb3_gen.go MarshalBinary2
            (each field omitted when zero / empty; the Any value field omitted when value is empty)

Decoding mirrors `amino.UnmarshalSizedReader(r, &packet, max)` where `packet` is an INTERFACE
value: amino.go `Unmarshal` → `UnmarshalReflect` → binary_decode.go `decodeReflectBinaryInterface`
→ `decodeReflectBinaryAny` → `decodeReflectBinaryStruct` (the reflect path; the genproto2
`UnmarshalBinary2` of pb3_gen.go is NOT used when decoding into an interface).
Quirks mirrored as they are:
* Go's `binary.Uvarint` accepts non-minimal encodings and at most 10 bytes (10th byte ≤ 1);
* an empty body decodes to the nil interface (no error here; the caller rejects it);
* the type URL only has to be printable ASCII containing a '/', the name after the LAST '/'
  selects the type (`typeURLtoFullname`), so "x/y/p2p.Msg" is accepted;
* the Any value may be present-but-empty (`12 00`): zero packet;
* struct fields must come in strictly increasing order, each at most once, with the exact wire
  type; anything else (unknown field, trailing bytes) is an error;
* `decodeReflectBinaryByteSlice` returns ok on an EMPTY remainder (binary_decode.go:776): a value
  that ENDS with the bare key `1a` (no length, no bytes) is accepted with Bytes = nil.
Every decoding error has the same effect in MConnection (stopForError), so the model uses
`Option` and does not distinguish error messages.  Core-only.
-/
namespace GnoVerif.C43

abbrev Bytes := List UInt8

/-- `connection.go` `Packet` (PacketPing | PacketPong | PacketMsg{ChannelID, EOF, Bytes}). -/
inductive Packet where
  | ping
  | pong
  | msg (ch : UInt8) (eof : UInt8) (bytes : Bytes)
deriving DecidableEq, Repr, Inhabited

/-! ## encoding -/

def putUvarintAux : Nat → Nat → Bytes
  | 0, n => [UInt8.ofNat n]
  | f+1, n => if n < 128 then [UInt8.ofNat n] else UInt8.ofNat (n % 128 + 128) :: putUvarintAux f (n / 128)

/-- Go `binary.PutUvarint` (amino `EncodeUvarint`); at most 10 bytes, exact for `n < 2^64`. -/
def putUvarint (n : Nat) : Bytes := putUvarintAux 9 n

/-- "/p2p.Ping" -/
def urlPing : Bytes := [0x2f, 0x70, 0x32, 0x70, 0x2e, 0x50, 0x69, 0x6e, 0x67]
/-- "/p2p.Pong" -/
def urlPong : Bytes := [0x2f, 0x70, 0x32, 0x70, 0x2e, 0x50, 0x6f, 0x6e, 0x67]
/-- "/p2p.Msg" -/
def urlMsg : Bytes := [0x2f, 0x70, 0x32, 0x70, 0x2e, 0x4d, 0x73, 0x67]

/-- pb3_gen.go `PacketMsg.MarshalBinary2`: fields 1 (varint), 2 (varint), 3 (bytes), each omitted
    when zero/empty. -/
def encMsgValue (ch eof : UInt8) (bs : Bytes) : Bytes :=
  (if ch ≠ 0 then 0x08 :: putUvarint ch.toNat else []) ++
  (if eof ≠ 0 then 0x10 :: putUvarint eof.toNat else []) ++
  (if bs.length ≠ 0 then 0x1a :: (putUvarint bs.length ++ bs) else [])

def Packet.url : Packet → Bytes
  | .ping => urlPing
  | .pong => urlPong
  | .msg .. => urlMsg

def Packet.value : Packet → Bytes
  | .ping => []
  | .pong => []
  | .msg ch eof bs => encMsgValue ch eof bs

/-- amino.go `marshalAnyBinary2`: field 1 = TypeURL, field 2 = Value unless the value is empty or
    the single byte 00. -/
def encAny (p : Packet) : Bytes :=
  let v := p.value
  (0x0a :: (putUvarint p.url.length ++ p.url)) ++
  (if v.length > 1 ∨ (v.length = 1 ∧ v.head? ≠ some 0) then 0x12 :: (putUvarint v.length ++ v) else [])

/-- `amino.MarshalAnySized`: uvarint length prefix + Any. -/
def encFrame (p : Packet) : Bytes :=
  let b := encAny p
  putUvarint b.length ++ b

/-! ## decoding -/

/-- Go `binary.Uvarint`: `(value, n)`; `n = 0`: buffer too small, `n < 0`: overflow (value 0).
    `x | uint64(b)<<s` is written as `x + b * 2^s` (the bits are disjoint: `x < 2^s`). -/
def goUvarintAux : Bytes → Nat → Nat → Nat → Nat × Int
  | [], _, _, _ => (0, 0)
  | b :: rest, i, x, s =>
    if i = 10 then (0, -((i : Int) + 1))
    else if b < 0x80 then
      if i = 9 ∧ b > 1 then (0, -((i : Int) + 1)) else (x + b.toNat * 2 ^ s, (i : Int) + 1)
    else goUvarintAux rest (i + 1) (x + (b.toNat % 128) * 2 ^ s) (s + 7)

def goUvarint (bz : Bytes) : Nat × Int := goUvarintAux bz 0 0 0

/-- amino `DecodeUvarint` (also the acceptance behaviour of `DecodeVarint`): value and remainder. -/
def uvarint? (bz : Bytes) : Option (Nat × Bytes) :=
  let (v, n) := goUvarint bz
  if n ≤ 0 then none else some (v, bz.drop n.toNat)

/-- `decodeFieldNumberAndTyp3`: (field number, typ3, remainder). -/
def key? (bz : Bytes) : Option (Nat × Nat × Bytes) :=
  match uvarint? bz with
  | none => none
  | some (v, rest) =>
    let num := v / 8
    if num = 0 then none
    else if num > 2 ^ 29 - 1 then none
    else some (num, v % 8, rest)

/-- amino `DecodeByteSlice`: (slice, remainder). -/
def byteSlice? (bz : Bytes) : Option (Bytes × Bytes) :=
  match uvarint? bz with
  | none => none
  | some (count, rest) =>
    if count > rest.length then none else some (rest.take count, rest.drop count)

/-- `consumeAny` (skipping a removed field): remainder. -/
def consumeAny? (typ : Nat) (bz : Bytes) : Option Bytes :=
  match typ with
  | 0 => (uvarint? bz).map (·.2)
  | 1 => if bz.length < 8 then none else some (bz.drop 8)
  | 2 => (byteSlice? bz).map (·.2)
  | 5 => if bz.length < 4 then none else some (bz.drop 4)
  | _ => none

/-- the fields of a PacketMsg being decoded (Go zero values). -/
structure MsgF where
  ch : UInt8 := 0
  eof : UInt8 := 0
  bytes : Bytes := []
deriving DecidableEq, Repr, Inhabited

/-- wire type wanted for field `f` of PacketMsg (`Typ3Varint` = 0, `Typ3ByteLength` = 2). -/
def wantTyp (f : Nat) : Nat := if f = 3 then 2 else 0

/-- decode the value of field `f` (1,2: `DecodeUvarint8`; 3: `decodeReflectBinaryByteSlice`,
    which accepts an empty remainder). -/
def decField (f : Nat) (bz : Bytes) (m : MsgF) : Option (MsgF × Bytes) :=
  if f = 1 ∨ f = 2 then
    match uvarint? bz with
    | none => none
    | some (v, rest) =>
      if v > 255 then none
      else if f = 1 then some ({ m with ch := UInt8.ofNat v }, rest)
      else some ({ m with eof := UInt8.ofNat v }, rest)
  else
    if bz.length = 0 then some ({ m with bytes := [] }, [])
    else match byteSlice? bz with
      | none => none
      | some (b, rest) => some ({ m with bytes := b }, rest)

/-- state of the skip loop `for fnum < field.BinFieldNum { … }` of `decodeReflectBinaryStruct`:
    `bz` is the buffer BEFORE the current key, `(fnum, typ, rest)` the current key and what follows. -/
structure SkipSt where
  bz : Bytes
  last : Nat
  fnum : Nat
  typ : Nat
  rest : Bytes

def skipLoop : Nat → Nat → SkipSt → Option SkipSt
  | 0, _, st => some st
  | fuel+1, f, st =>
    if st.fnum < f then
      -- slide over the key
      if st.fnum ≤ st.last then none else
      match consumeAny? st.typ st.rest with
      | none => none
      | some bz' =>
        if bz'.length = 0 then some { st with bz := bz', last := st.fnum, rest := bz' }   -- break
        else match key? bz' with
          | none => none
          | some (fnum', typ', rest') =>
            skipLoop fuel f { bz := bz', last := st.fnum, fnum := fnum', typ := typ', rest := rest' }
    else some st

/-- the `for _, field := range info.Fields` loop of `decodeReflectBinaryStruct` over the field
    numbers `fs`; returns the decoded fields and the unconsumed remainder. -/
def structLoop : List Nat → Bytes → Nat → MsgF → Option (MsgF × Bytes)
  | [], bz, _, m => some (m, bz)
  | f :: fs, bz, last, m =>
    if bz.length = 0 then structLoop fs bz last m
    else match key? bz with
      | none => none        -- fnum = 0 < f: the skip loop slides and returns the error
      | some (fnum, typ, rest) =>
        if f < fnum then structLoop fs bz last m
        else match skipLoop (bz.length + 1) f { bz := bz, last := last, fnum := fnum, typ := typ, rest := rest } with
          | none => none
          | some st =>
            if st.fnum ≠ f then structLoop fs st.bz st.last m
            else if st.fnum ≤ st.last then none
            else if st.typ ≠ wantTyp f then none
            else match decField f st.rest m with
              | none => none
              | some (m', bz') => structLoop fs bz' st.fnum m'

/-- `decodeReflectBinaryStruct` for PacketMsg (bare): all of `value` must be consumed. -/
def decodeMsgValue (value : Bytes) : Option MsgF :=
  match structLoop [1, 2, 3] value 0 {} with
  | none => none
  | some (m, rest) => if rest.length > 0 then none else some m

/-- `IsASCIIText`. -/
def isASCIIText (s : Bytes) : Bool :=
  s.length ≠ 0 && s.all (fun b => 32 ≤ b && b ≤ 126)

/-- `typeURLtoFullname`: the part after the last '/', error when there is no '/'. -/
def fullname? (url : Bytes) : Option Bytes :=
  if url.contains 0x2f then some ((url.reverse.takeWhile (· ≠ 0x2f)).reverse) else none

/-- `decodeReflectBinaryAny` for the registered types implementing `Packet`; every other name is an
    error (unregistered, or registered but not assignable to the interface). -/
def decodeAnyValue (url value : Bytes) : Option Packet :=
  if ¬ isASCIIText url then none else
  match fullname? url with
  | none => none
  | some name =>
    if name = urlPing.drop 1 then (if value.length = 0 then some .ping else none)
    else if name = urlPong.drop 1 then (if value.length = 0 then some .pong else none)
    else if name = urlMsg.drop 1 then
      (if value.length = 0 then some (.msg 0 0 [])
       else (decodeMsgValue value).map fun m => .msg m.ch m.eof m.bytes)
    else none

/-- `amino.Unmarshal(body, &packet)` with `packet` an interface: outer `none` = error,
    `some none` = nil interface (empty body), `some (some p)` = packet. -/
def decodePacket (body : Bytes) : Option (Option Packet) :=
  if body.length = 0 then some none else
  match key? body with
  | none => none
  | some (fnum, typ, rest) =>
    if fnum ≠ 1 ∨ typ ≠ 2 then none else
    match byteSlice? rest with
    | none => none
    | some (url, rest) =>
      if rest.length = 0 then (decodeAnyValue url []).map some
      else match key? rest with
        | none => none
        | some (fnum, typ, rest) =>
          if fnum ≠ 2 ∨ typ ≠ 2 then none else
          match byteSlice? rest with
          | none => none
          | some (value, rest) =>
            if rest.length > 0 then none else (decodeAnyValue url value).map some


/-! ## what a protobuf parser accepts (specification of "well-formed") -/

/-- conn.proto `Msg { uint32 channel_id = 1; uint32 eof = 2; bytes bytes = 3 }`: a value is
    well-formed when it is a sequence of COMPLETE fields with these numbers and wire types. -/
def wfMsgValueAux : Nat → Bytes → Bool
  | 0, v => v.length == 0
  | fuel+1, v =>
    if v.length = 0 then true else
    match key? v with
    | none => false
    | some (num, typ, rest) =>
      if (num = 1 ∨ num = 2) ∧ typ = 0 then
        match uvarint? rest with
        | none => false
        | some (_, rest') => wfMsgValueAux fuel rest'
      else if num = 3 ∧ typ = 2 then
        match byteSlice? rest with
        | none => false
        | some (_, rest') => wfMsgValueAux fuel rest'
      else false

def wfMsgValue (v : Bytes) : Bool := wfMsgValueAux v.length v

/-- the body of a frame carrying `Any{"/p2p.Msg", value}`. -/
def msgBody (value : Bytes) : Bytes :=
  0x0a :: (putUvarint urlMsg.length ++ urlMsg) ++ (0x12 :: (putUvarint value.length ++ value))

end GnoVerif.C43
