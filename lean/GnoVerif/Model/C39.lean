import GnoVerif.Model.C39Merkle
/-
C39 — model of tm2/pkg/bft/types/part_set.go, parametric in the hash `H`.

  Part, Part.ValidateBasic, PartSetHeader, PartSet{total,hash,parts,partsBitArray,count},
  NewPartSetFromData, NewPartSetFromHeader, Header, AddPart, GetPart, IsComplete, GetReader.

Quirks of the code that are modelled as they are:
* `NewPartSetFromData` on zero-length data: `total = 0`, and
  `merkle.SimpleProofsFromByteSlices` dereferences a nil root node → `panic:nil`.
* `AddPart` checks `Index >= total` and then indexes `parts[Index]`: a negative
  index panics (`index out of range`) BEFORE anything is mutated → `panicRange`, state unchanged.
* `AddPart(nil)` dereferences the nil part → `panicNil`, state unchanged.
* `computeHashFromAunts` reports a malformed aunt list as a nil hash; `Proof.Verify` rejects a nil
  computed hash explicitly (fix 96b4d2262f; before it, a header with an EMPTY hash accepted
  malformed proofs through `bytes.Equal(nil, [])`).
* `GetReader` on a complete set with `total = 0` indexes `parts[0]` → `panic:range`.
* `bitarray.NewBitArray(0)` is nil; `SetIndex` out of range is a no-op: `List.set`.
The mutex is not modelled (each method body is one atomic step).
Core-only.
-/
namespace GnoVerif.C39

/-- `types.Part`. -/
structure Part where
  index : Int
  bytes : Bytes
  proof : Proof
deriving DecidableEq, Repr, Inhabited

/-- `types.PartSetHeader`. -/
structure Header where
  total : Nat
  hash  : Bytes
deriving DecidableEq, Repr, Inhabited

/-- `types.PartSet` (without the mutex). -/
structure PartSet where
  total : Nat
  hash  : Bytes
  parts : List (Option Part)     -- `[]*Part`, nil = none
  bits  : List Bool              -- partsBitArray
  count : Nat
deriving DecidableEq, Repr, Inhabited

/-- `BlockPartSizeBytes`. -/
def blockPartSizeBytes : Nat := 65536

/-- result classes of `Part.ValidateBasic`. -/
inductive VBRes | ok | negIndex | tooBig | badProof
deriving DecidableEq, Repr

def Part.validateBasic (p : Part) : VBRes :=
  if p.index < 0 then .negIndex
  else if p.bytes.length > blockPartSizeBytes then .tooBig
  else if ¬ p.proof.validateBasic then .badProof
  else .ok

/-- `(len(data) + partSize - 1) / partSize` -/
def numParts (len partSize : Nat) : Nat := (len + partSize - 1) / partSize

/-- `data[i*partSize : min(len(data), (i+1)*partSize)]` -/
def slice (data : Bytes) (partSize i : Nat) : Bytes :=
  (data.take (min data.length ((i+1) * partSize))).drop (i * partSize)

/-- the byte contents of the parts, in index order -/
def split (data : Bytes) (partSize : Nat) : List Bytes :=
  (List.range (numParts data.length partSize)).map (slice data partSize)

variable (H : Bytes → Bytes)

/-- the header `NewPartSetFromData(data, partSize).Header()` would carry
(defined for every input; the constructor itself panics when `total = 0`). -/
def headerOf (data : Bytes) (partSize : Nat) : Header :=
  { total := numParts data.length partSize, hash := (proofsAux H (split data partSize)).1 }

/-- part `i` given the split contents and the per-leaf aunt lists. -/
def partOf (items : List Bytes) (aunts : List (List Bytes)) (i : Nat) : Part :=
  { index := i, bytes := items.getD i [],
    proof := { total := items.length, index := i, leafHash := leafHash H (items.getD i []),
               aunts := aunts.getD i [] } }

/-- part `i` as built by `NewPartSetFromData`. -/
def partAt (data : Bytes) (partSize i : Nat) : Part :=
  partOf H (split data partSize) (proofsAux H (split data partSize)).2 i

/-- all parts of `NewPartSetFromData(data, partSize)` (tree computed once). -/
def mkParts (data : Bytes) (partSize : Nat) : List Part :=
  let items := split data partSize
  let pr := proofsAux H items
  (List.range (numParts data.length partSize)).map (partOf H items pr.2)

inductive Panic | nilDeref | range | incomplete
deriving DecidableEq, Repr

/-- `NewPartSetFromData(data, partSize)` for `partSize > 0`. -/
def fromData (data : Bytes) (partSize : Nat) : Except Panic PartSet :=
  let total := numParts data.length partSize
  if total = 0 then .error .nilDeref        -- rootSPN.Hash on a nil *SimpleProofNode
  else
    let items := split data partSize
    let pr := proofsAux H items
    .ok { total := total, hash := pr.1,
          parts := ((List.range total).map (partOf H items pr.2)).map some,
          bits := List.replicate total true, count := total }

/-- `NewPartSetFromHeader(header)` (`header.Total ≥ 0`). -/
def fromHeader (h : Header) : PartSet :=
  { total := h.total, hash := h.hash, parts := List.replicate h.total none,
    bits := List.replicate h.total false, count := 0 }

/-- `ps.Header()` -/
def PartSet.header (s : PartSet) : Header := { total := s.total, hash := s.hash }

/-- result classes of `AddPart`: `(added, nil)`, the two errors, the two panics. -/
inductive AddRes
  | added (b : Bool)
  | errIndex         -- ErrPartSetUnexpectedIndex
  | errProof         -- ErrPartSetInvalidProof
  | panicRange       -- runtime error: index out of range
  | panicNil         -- nil pointer dereference (nil part)
deriving DecidableEq, Repr

/-- `ps.AddPart(part)` for non-nil `ps`, `part`: result class and the state afterwards.
Check order exactly as in the source. -/
def addPart (s : PartSet) (p : Part) : AddRes × PartSet :=
  -- Invalid part index
  if p.index ≥ (s.total : Int) then (.errIndex, s)
  -- `ps.parts[part.Index]` with a negative index panics
  else if p.index < 0 then (.panicRange, s)
  else
    let i := p.index.toNat
    match s.parts[i]? with
    | none => (.panicRange, s)                 -- unreachable when parts.length = total
    | some (some _) => (.added false, s)       -- If part already exists, return false.
    | some none =>
      if p.proof.index ≠ p.index then (.errProof, s)
      else if p.proof.total ≠ (s.total : Int) then (.errProof, s)
      else if ¬ p.proof.verify H s.hash p.bytes then (.errProof, s)
      else
        (.added true,
          { s with parts := s.parts.set i (some p), bits := s.bits.set i true, count := s.count + 1 })

/-- `AddPart` with a possibly nil part. -/
def addPartOpt (s : PartSet) (p : Option Part) : AddRes × PartSet :=
  match p with
  | none => (.panicNil, s)
  | some p => addPart H s p

/-- `AddPart` on a possibly nil `*PartSet`: `(false, nil)`. -/
def addPartNilSet (s : Option PartSet) (p : Option Part) : AddRes × Option PartSet :=
  match s with
  | none => (.added false, none)
  | some s => let r := addPartOpt H s p; (r.1, some r.2)

/-- fold `AddPart` over an arrival sequence; results in arrival order. -/
def addMany (s : PartSet) : List Part → List AddRes × PartSet
  | [] => ([], s)
  | p :: ps =>
    let r := addPart H s p
    let rs := addMany r.2 ps
    (r.1 :: rs.1, rs.2)

/-- `ps.IsComplete()` -/
def PartSet.isComplete (s : PartSet) : Bool := s.count == s.total

/-- `ps.GetPart(i)`: `none` = panic (index out of range). -/
def PartSet.getPart (s : PartSet) (i : Int) : Option (Option Part) :=
  if i < 0 then none else s.parts[i.toNat]?

/-- everything `io.ReadAll(ps.GetReader())` returns: the parts' bytes in index order. -/
def PartSet.reader (s : PartSet) : Except Panic Bytes :=
  if ¬ s.isComplete then .error .incomplete      -- panic("Cannot GetReader() on incomplete PartSet")
  else if s.parts.isEmpty then .error .range     -- parts[0] in NewPartSetReader
  else if s.parts.any Option.isNone then .error .nilDeref
  else .ok (s.parts.flatMap fun p => match p with | some p => p.bytes | none => [])

end GnoVerif.C39
