import GnoVerif.Model.C04Int
/-!
C04 — MiniGo values, store and the non-recursive value operations
(strings/UTF-8, slices with shared backing arrays, append/copy, maps,
conversions, equality, printing).

The store is a heap of cells (`Array Val`): every variable is a cell (so that
closures capture variables by reference and `&x` is a cell address), a slice
backing array is a cell holding a `Val.arr`, a map is a cell holding a
`Val.mapobj`.

GnoVM rules mirrored here (uverse.go `append`, values.go `GetSlice/GetSlice2`):
* `append` within capacity writes in place and returns a slice over the same
  array; beyond capacity it allocates a fresh array of EXACTLY `len0+len1`
  elements (cap = len; Go only guarantees cap ≥ len, programs must not
  observe it).
* `append(nil, <empty>)` stays nil.
* `s[lo:hi]` on a slice checks `hi ≤ cap`, on arrays/strings `hi ≤ len`;
  a nil slice sliced `[0:0]` stays nil.
Core-only.
-/
namespace GnoVerif.C04

inductive Ty
  | int (t : ITy) | bool | str | any | rterr
  | arr (n : Nat) (e : Ty) | slice (e : Ty) | map (k v : Ty) | ptr (e : Ty)
  | named (n : String)
  | fn
  deriving DecidableEq, Repr, Inhabited

abbrev Env := List (String × Nat)

inductive Val
  | int (t : ITy) (v : Int)
  | bool (b : Bool)
  | str (s : List UInt8)
  | arr (es : List Val)
  | struct (fs : List Val)
  | slice (a : Option Nat) (off len cap : Nat)
  | map (vt : Ty) (a : Option Nat)
  | ptr (a : Option Nat) (path : List Nat)
  | fn (f : Option Nat) (env : Env)
  | anyNil
  | anyV (t : Ty) (v : Val)
  | mapobj (kvs : List (Val × Val))
  | tuple (vs : List Val)
  deriving Repr, Inhabited

/-- panic payloads -/
inductive PVal
  | rt (e : RtErr)
  | user (v : Val)
  deriving Repr, Inhabited

/-- a deferred call: function value and already-evaluated arguments -/
structure DCall where
  fn : Val
  args : List Val
  deriving Repr, Inhabited

structure St where
  heap : Array Val := #[]
  out : Array String := #[]
  /-- the panic a directly-deferred function may `recover()` -/
  pslot : Option PVal := none
  /-- defer stacks, one per active call frame (innermost first) -/
  defers : List (List DCall) := []
  deriving Inhabited

inductive Err
  | panic (p : PVal)
  | oof                       -- out of fuel
  | stuck (msg : String)      -- ill-typed program (never for generated programs)
  deriving Repr, Inhabited

inductive Res (α : Type)
  | ok (a : α) (s : St)
  | err (e : Err) (s : St)
  deriving Inhabited

abbrev M (α : Type) := St → Res α

@[inline] def M.pure {α} (a : α) : M α := fun s => .ok a s
@[inline] def M.bind {α β} (x : M α) (f : α → M β) : M β := fun s =>
  match x s with
  | .ok a s' => f a s'
  | .err e s' => .err e s'

instance : Monad M where
  pure := M.pure
  bind := M.bind

def throwE {α} (e : Err) : M α := fun s => .err e s
def rtPanic {α} (e : RtErr) : M α := throwE (.panic (.rt e))
def stuck {α} (msg : String) : M α := throwE (.stuck msg)
def getSt : M St := fun s => .ok s s
def setSt (s : St) : M Unit := fun _ => .ok () s
def modifySt (f : St → St) : M Unit := fun s => .ok () (f s)

def liftRt {α} : Except RtErr α → M α
  | .ok a => pure a
  | .error e => rtPanic e

/-! ### heap -/

def alloc (v : Val) : M Nat := fun s => .ok s.heap.size { s with heap := s.heap.push v }

def readCell (a : Nat) : M Val := fun s =>
  match s.heap[a]? with
  | some v => .ok v s
  | none => .err (.stuck "bad address") s

def writeCell (a : Nat) (v : Val) : M Unit := fun s =>
  if a < s.heap.size then .ok () { s with heap := s.heap.set! a v }
  else .err (.stuck "bad address") s

def listSet {α} : List α → Nat → α → List α
  | [], _, _ => []
  | _ :: xs, 0, v => v :: xs
  | x :: xs, n+1, v => x :: listSet xs n v

/-- navigate into nested arrays / structs -/
def getPath : Val → List Nat → Option Val
  | v, [] => some v
  | .arr es, i :: p => match es[i]? with
    | some e => getPath e p
    | none => none
  | .struct fs, i :: p => match fs[i]? with
    | some e => getPath e p
    | none => none
  | _, _ => none

def setPath : Val → List Nat → Val → Option Val
  | _, [], nv => some nv
  | .arr es, i :: p, nv => match es[i]? with
    | some e => (setPath e p nv).map fun e' => .arr (listSet es i e')
    | none => none
  | .struct fs, i :: p, nv => match fs[i]? with
    | some e => (setPath e p nv).map fun e' => .struct (listSet fs i e')
    | none => none
  | _, _, _ => none

def readAt (a : Nat) (path : List Nat) : M Val := do
  let c ← readCell a
  match getPath c path with
  | some v => pure v
  | none => stuck "bad path"

def writeAt (a : Nat) (path : List Nat) (nv : Val) : M Unit := do
  let c ← readCell a
  match setPath c path nv with
  | some c' => writeCell a c'
  | none => stuck "bad path"

/-! ### type table, zero values -/

structure StructDecl where
  name : String
  fields : List Ty
  deriving Repr, Inhabited

abbrev TypeTable := List StructDecl

def TypeTable.find? (tt : TypeTable) (n : String) : Option StructDecl :=
  List.find? (fun d => d.name == n) tt

/-- zero value; `fuel` bounds the unfolding of named types (a struct cannot
contain itself by value, so the nesting depth of the program's types suffices) -/
def zero (tt : TypeTable) : Nat → Ty → Val
  | 0, _ => .anyNil
  | _+1, .int t => .int t 0
  | _+1, .bool => .bool false
  | _+1, .str => .str []
  | _+1, .any => .anyNil
  | _+1, .rterr => .anyNil
  | n+1, .arr k e => .arr (List.replicate k (zero tt n e))
  | _+1, .slice _ => .slice none 0 0 0
  | _+1, .map _ v => .map v none
  | _+1, .ptr _ => .ptr none []
  | n+1, .named s => match tt.find? s with
    | some d => .struct (d.fields.map (zero tt n))
    | none => .anyNil
  | _+1, .fn => .fn none []

def zeroFuel : Nat := 64

/-! ### UTF-8 (Go's `utf8.EncodeRune`, `utf8.DecodeRune` as used by `range` and
`string(rune)` / `[]rune(s)` conversions) -/

def runeError : Nat := 0xFFFD

def encodeRune (r : Int) : List UInt8 :=
  let r : Nat := if r < 0 ∨ r > 0x10FFFF ∨ (0xD800 ≤ r ∧ r ≤ 0xDFFF) then runeError else r.toNat
  if r < 0x80 then [UInt8.ofNat r]
  else if r < 0x800 then [UInt8.ofNat (0xC0 ||| (r >>> 6)), UInt8.ofNat (0x80 ||| (r &&& 0x3F))]
  else if r < 0x10000 then
    [UInt8.ofNat (0xE0 ||| (r >>> 12)), UInt8.ofNat (0x80 ||| ((r >>> 6) &&& 0x3F)), UInt8.ofNat (0x80 ||| (r &&& 0x3F))]
  else
    [UInt8.ofNat (0xF0 ||| (r >>> 18)), UInt8.ofNat (0x80 ||| ((r >>> 12) &&& 0x3F)),
     UInt8.ofNat (0x80 ||| ((r >>> 6) &&& 0x3F)), UInt8.ofNat (0x80 ||| (r &&& 0x3F))]

def isCont (b : UInt8) : Bool := b.toNat &&& 0xC0 == 0x80

/-- first rune of a non-empty byte string: (rune, width). Invalid → (U+FFFD, 1). -/
def decodeRune : List UInt8 → Nat × Nat
  | [] => (runeError, 0)
  | b0 :: rest =>
    let x := b0.toNat
    if x < 0x80 then (x, 1)
    else if x < 0xC2 then (runeError, 1)
    else if x < 0xE0 then
      match rest with
      | b1 :: _ => if isCont b1 then (((x &&& 0x1F) <<< 6) ||| (b1.toNat &&& 0x3F), 2) else (runeError, 1)
      | _ => (runeError, 1)
    else if x < 0xF0 then
      match rest with
      | b1 :: b2 :: _ =>
        let lo := if x == 0xE0 then 0xA0 else 0x80
        let hi := if x == 0xED then 0x9F else 0xBF
        if lo ≤ b1.toNat ∧ b1.toNat ≤ hi ∧ isCont b2 then
          (((x &&& 0x0F) <<< 12) ||| ((b1.toNat &&& 0x3F) <<< 6) ||| (b2.toNat &&& 0x3F), 3)
        else (runeError, 1)
      | _ => (runeError, 1)
    else if x < 0xF5 then
      match rest with
      | b1 :: b2 :: b3 :: _ =>
        let lo := if x == 0xF0 then 0x90 else 0x80
        let hi := if x == 0xF4 then 0x8F else 0xBF
        if lo ≤ b1.toNat ∧ b1.toNat ≤ hi ∧ isCont b2 ∧ isCont b3 then
          (((x &&& 0x07) <<< 18) ||| ((b1.toNat &&& 0x3F) <<< 12) ||| ((b2.toNat &&& 0x3F) <<< 6) ||| (b3.toNat &&& 0x3F), 4)
        else (runeError, 1)
      | _ => (runeError, 1)
    else (runeError, 1)

/-- all runes of a string with their byte offsets (fuel = length) -/
def decodeAll : Nat → Nat → List UInt8 → List (Nat × Nat)
  | 0, _, _ => []
  | _, _, [] => []
  | n+1, off, s =>
    let (r, w) := decodeRune s
    let w := if w == 0 then 1 else w
    (off, r) :: decodeAll n (off + w) (s.drop w)

/-! ### comparison -/

def cmpBytes : List UInt8 → List UInt8 → Ordering
  | [], [] => .eq
  | [], _ :: _ => .lt
  | _ :: _, [] => .gt
  | a :: as, b :: bs => if a < b then .lt else if a > b then .gt else cmpBytes as bs

def cmpOrd (op : CmpOp) (o : Ordering) : Bool :=
  match op with
  | .eq => o == .eq | .ne => o != .eq
  | .lt => o == .lt | .le => o != .gt
  | .gt => o == .gt | .ge => o != .lt

/-- `==` on comparable values (scalars, strings, pointers, arrays/structs of
those, nil-ness of slices/maps/funcs, interface values holding them). -/
def valEq : Nat → Val → Val → Option Bool
  | 0, _, _ => none
  | _+1, .int t a, .int t' b => if t = t' then some (cmpInt t .eq a b) else none
  | _+1, .bool a, .bool b => some (a == b)
  | _+1, .str a, .str b => some (a == b)
  | _+1, .ptr a p, .ptr b q => some (a == b && p == q)
  | _+1, .slice a _ _ _, .slice b _ _ _ => if a.isNone || b.isNone then some (a.isNone && b.isNone) else none
  | _+1, .map _ a, .map _ b => if a.isNone || b.isNone then some (a.isNone && b.isNone) else none
  | _+1, .fn a _, .fn b _ => if a.isNone || b.isNone then some (a.isNone && b.isNone) else none
  | _+1, .anyNil, .anyNil => some true
  | _+1, .anyNil, .anyV _ _ => some false
  | _+1, .anyV _ _, .anyNil => some false
  | n+1, .anyV t a, .anyV t' b => if t = t' then valEq n a b else some false
  | n+1, .arr as, .arr bs => go n as bs
  | n+1, .struct as, .struct bs => go n as bs
  | _, _, _ => none
where
  go : Nat → List Val → List Val → Option Bool
  | _, [], [] => some true
  | n, a :: as, b :: bs =>
    match valEq n a b with
    | some true => go n as bs
    | r => r
  | _, _, _ => none

def eqFuel : Nat := 32

/-! ### printing (uversePrint / Go's builtin println: ints, bools, strings) -/

def hexD (n : Nat) : Char :=
  if n < 10 then Char.ofNat (n + 48) else Char.ofNat (n - 10 + 97)

/-- canonical escaping of output bytes: printable ASCII except `| \ ~ #` stays,
a newline becomes `|` -/
def escByte (b : UInt8) : List Char :=
  let n := b.toNat
  if n = 0x0a then ['|']
  else if 0x20 ≤ n ∧ n ≤ 0x7e ∧ n ≠ 0x7c ∧ n ≠ 0x5c ∧ n ≠ 0x7e ∧ n ≠ 0x23 then [Char.ofNat n]
  else ['\\', 'x', hexD (n / 16), hexD (n % 16)]

def escBytes (bs : List UInt8) : String := String.ofList (bs.flatMap escByte)

def showVal : Val → Option String
  | .int _ v => some (toString v)
  | .bool b => some (if b then "true" else "false")
  | .str s => some (escBytes s)
  | _ => none

def printLine (vs : List Val) : M Unit := do
  match vs.mapM showVal with
  | some parts => modifySt fun s => { s with out := s.out.push (String.intercalate " " parts ++ "|") }
  | none => stuck "println of unsupported value"

/-! ### slices -/

/-- read the backing array of a slice -/
def readArr (a : Nat) : M (List Val) := do
  match (← readCell a) with
  | .arr es => pure es
  | _ => stuck "slice base is not an array"

def sliceElems (a : Option Nat) (off len : Nat) : M (List Val) :=
  match a with
  | none => pure []
  | some a => do
    let es ← readArr a
    pure ((es.drop off).take len)

/-- overwrite `vs` into array cell `a` starting at `pos` -/
def writeElems (a : Nat) (pos : Nat) (vs : List Val) : M Unit := do
  let es ← readArr a
  let es' := es.take pos ++ vs ++ es.drop (pos + vs.length)
  writeCell a (.arr es')

/-- uverse.go `append` (see the header) -/
def appendVals (s : Val) (xs : List Val) : M Val :=
  match s with
  | .slice none _ _ _ =>
    if xs.isEmpty then pure (.slice none 0 0 0)
    else do
      let a ← alloc (.arr xs)
      pure (.slice (some a) 0 xs.length xs.length)
  | .slice (some a) off len cap =>
    if xs.isEmpty then pure s
    else if len + xs.length ≤ cap then do
      writeElems a (off + len) xs
      pure (.slice (some a) off (len + xs.length) cap)
    else do
      let old ← sliceElems (some a) off len
      let b ← alloc (.arr (old ++ xs))
      pure (.slice (some b) 0 (len + xs.length) (len + xs.length))
  | _ => stuck "append to non-slice"

/-- uverse.go `copy` (overlap-safe: the source elements are read first) -/
def copyVals (dst : Val) (src : List Val) : M Nat :=
  match dst with
  | .slice a off len _ =>
    let n := min len src.length
    if n == 0 then pure 0
    else match a with
      | some a => do
        writeElems a off (src.take n)
        pure n
      | none => pure 0
  | _ => stuck "copy to non-slice"

def toIdx (v : Val) : M Int :=
  match v with
  | .int _ i => pure i
  | _ => stuck "index is not an integer"

/-- values.go GetSlice / GetSlice2 on a slice value -/
def resliceSlice (a : Option Nat) (off _len cap : Nat) (lo hi : Int) (mx : Option Int) : M Val := do
  let m := mx.getD (cap : Int)
  if lo < 0 ∨ hi < 0 ∨ m < 0 ∨ lo > hi ∨ hi > m ∨ hi > cap ∨ m > cap then rtPanic .slice
  else match a with
    | none => pure (.slice none 0 0 0)
    | some a => pure (.slice (some a) (off + lo.toNat) (hi - lo).toNat (m - lo).toNat)

/-- slicing an array that lives in cell `a` at `path = []` (a variable) -/
def resliceArr (a : Nat) (n : Nat) (lo hi : Int) (mx : Option Int) : M Val := do
  let m := mx.getD (n : Int)
  if lo < 0 ∨ hi < 0 ∨ m < 0 ∨ lo > hi ∨ hi > m ∨ hi > n ∨ m > n then rtPanic .slice
  else pure (.slice (some a) lo.toNat (hi - lo).toNat (m - lo).toNat)

def resliceStr (s : List UInt8) (lo hi : Int) : M Val := do
  if lo < 0 ∨ hi < 0 ∨ lo > hi ∨ hi > s.length then rtPanic .slice
  else pure (.str ((s.drop lo.toNat).take (hi - lo).toNat))

/-! ### maps (no iteration; keys are scalars / strings) -/

def mapLookup (kvs : List (Val × Val)) (k : Val) : Option Val :=
  match kvs.find? (fun kv => valEq eqFuel kv.1 k == some true) with
  | some kv => some kv.2
  | none => none

def mapSet (kvs : List (Val × Val)) (k v : Val) : List (Val × Val) :=
  if (mapLookup kvs k).isSome then
    kvs.map fun kv => if valEq eqFuel kv.1 k == some true then (kv.1, v) else kv
  else kvs ++ [(k, v)]

def mapDel (kvs : List (Val × Val)) (k : Val) : List (Val × Val) :=
  kvs.filter fun kv => valEq eqFuel kv.1 k != some true

def readMap (a : Nat) : M (List (Val × Val)) := do
  match (← readCell a) with
  | .mapobj kvs => pure kvs
  | _ => stuck "not a map object"

/-! ### conversions (values_conversions.go ConvertTo, the cases of the fragment) -/

def bytesOfVals (vs : List Val) : M (List UInt8) :=
  vs.mapM fun v => match v with
    | .int _ i => pure (UInt8.ofNat i.toNat)
    | _ => stuck "byte slice element"

def convert (tt : TypeTable) (to : Ty) (v : Val) : M Val :=
  match to, v with
  | .int t, .int s a => pure (.int t (convInt s t a))
  | .str, .int _ a => pure (.str (encodeRune a))             -- string(rune)
  | .str, .str s => pure (.str s)
  | .bool, .bool b => pure (.bool b)
  | .str, .slice a off len _ => do                            -- string([]byte) / string([]rune)
    let es ← sliceElems a off len
    match es with
    | .int .i32 _ :: _ =>
      pure (.str (es.flatMap fun e => match e with | .int _ r => encodeRune r | _ => []))
    | _ => do
      let bs ← bytesOfVals es
      pure (.str bs)
  | .slice (.int .u8), .str s => do                           -- []byte(s): cap = len (compat doc)
    if s.isEmpty then do
      let a ← alloc (.arr [])
      pure (.slice (some a) 0 0 0)
    else do
      let a ← alloc (.arr (s.map fun b => .int .u8 b.toNat))
      pure (.slice (some a) 0 s.length s.length)
  | .slice (.int .i32), .str s => do                          -- []rune(s)
    let rs := (decodeAll s.length 0 s).map fun p => Val.int .i32 p.2
    let a ← alloc (.arr rs)
    pure (.slice (some a) 0 rs.length rs.length)
  | _, _ => let _ := tt; stuck "unsupported conversion"

end GnoVerif.C04
