/-!
# C53 — genesis application: in memory vs streamed from disk

Executable model of the bookkeeping part of gno.land's `InitChainer`
(gno.land/pkg/gnoland/app.go): `applyInMemoryAppState`, `applyStreamingAppState`,
`applyBalance`, `deliverGenesisTx` (signer-info force-set, skipped failed txs),
`validateSignerInfo`, `shouldAssertValoperCoverage`, and of the loader
`LoadStreamingGenesisDoc` (genesis_state_ref.go): the JSONL framing of the bulk
arrays and the top-level fields it decodes.

What is modelled concretely (and compared with the real application on every run):
the pre-checks each path performs and in which order, account numbering and the
last-entry-wins balance of every genesis balance line, the account number / sequence
force-set of `SignerInfo`, which transactions are skipped, the version of the first
commit, the account number the fee collector receives, and — for the five tiny
transaction kinds the harness uses — whether the transaction succeeds.

NOT modelled: the GnoVM, gas, events, the store, the app hash.  Those are compared
implementation-against-implementation by the harness oracle.

The quirks of the code are mirrored, not repaired:
* the streaming loader has no case for the top-level `initial_height`
  (`decodeTopLevelField`), so the request it produces always carries 0;
* `applyStreamingAppState` performs neither the `InitialHeight` consistency check nor
  `validateSignerInfo`, and validates `gas_replay_mode` only after the balances;
* `shouldAssertValoperCoverage` recognises only the in-memory `GnoGenesisState`.
-/
namespace GnoVerif.C53

inductive Denom | atom | ugnot | zed
deriving DecidableEq, Repr

abbrev Coins := List (Denom × Nat)

/-- `0` is F, the funded signer of every genesis transaction; `i+1` is the address a_i. -/
abbrev Addr := Nat

structure Bal where
  addr : Addr
  coins : Coins
deriving DecidableEq, Repr

structure SInfo where
  addr : Addr
  num : Nat
  seq : Nat
deriving DecidableEq, Repr

/-- The transaction vocabulary of the harness: add package p, call `Inc` / `Fail` of
    package p, deploy a `gno.land/r/sys/validators/v3` whose assertion passes / panics. -/
inductive Kind
  | add (p : Nat) | inc (p : Nat) | fail (p : Nat) | v3ok | v3bad
deriving DecidableEq, Repr

structure Tx where
  kind : Kind
  hasMeta : Bool := false
  height : Nat := 0          -- metadata.BlockHeight (0 = genesis-mode tx)
  failed : Bool := false     -- metadata.Failed
  sinfo : List SInfo := []   -- metadata.SignerInfo
deriving DecidableEq, Repr

inductive Grm | none | strict | source | bogus
deriving DecidableEq, Repr

/-- A genesis document, reduced to what the modelled code reads. -/
structure Genesis where
  topIH : Nat := 0            -- GenesisDoc.initial_height
  appIH : Nat := 0            -- app_state.initial_height
  grm : Grm := .none          -- app_state.gas_replay_mode
  pastChains : Nat := 0       -- len(app_state.past_chain_ids)
  validators : Nat := 1       -- len(validators)
  balances : List Bal := []
  txs : List Tx := []
  omitBank : Bool := false    -- the key app_state.bank is absent from the file
  omitAuth : Bool := false
deriving DecidableEq, Repr

structure Acct where
  num : Nat
  seq : Nat
  coins : Coins
deriving DecidableEq, Repr

inductive Res | ok | fail | skip
deriving DecidableEq, Repr

/-- Ledger state.  `accts` is a write log: the first entry for an address is current. -/
structure St where
  accts : List (Addr × Acct) := []
  next : Nat := 0                  -- the global account-number counter
  fc : Option Nat := none          -- account number of the fee collector, once it exists
  deployed : List Nat := []
  v3 : Option Bool := none         -- deployed validators/v3: `some true` passes, `some false` panics
  results : List Res := []
deriving DecidableEq, Repr

def St.lookup (st : St) (a : Addr) : Option Acct :=
  (st.accts.find? (·.1 == a)).map (·.2)

/-- `applyBalance`: `NewAccountWithAddress` takes the next account number even when the
    address already has an account (the old number becomes a gap), `SetCoins` replaces. -/
def applyBalance (st : St) (b : Bal) : St :=
  { st with accts := (b.addr, ⟨st.next, 0, b.coins⟩) :: st.accts, next := st.next + 1 }

/-- The `SignerInfo` loop of `deliverGenesisTx`. -/
def forceSet (st : St) (si : SInfo) : St :=
  match st.lookup si.addr with
  | some a => { st with accts := (si.addr, { a with num := si.num, seq := si.seq }) :: st.accts }
  | none =>
    -- NewAccountWithUncheckedNumber: bumps the counter only when needed
    { st with accts := (si.addr, ⟨si.num, si.seq, []⟩) :: st.accts,
              next := if si.num ≥ st.next then si.num + 1 else st.next }

def execKind (st : St) : Kind → St × Res
  | .add p => if p ∈ st.deployed then (st, .fail) else ({ st with deployed := p :: st.deployed }, .ok)
  | .inc p => if p ∈ st.deployed then (st, .ok) else (st, .fail)
  | .fail _ => (st, .fail)
  | .v3ok => match st.v3 with
    | none => ({ st with v3 := some true }, .ok)
    | some _ => (st, .fail)
  | .v3bad => match st.v3 with
    | none => ({ st with v3 := some false }, .ok)
    | some _ => (st, .fail)

/-- `deliverGenesisTx`.  F always passes the ante handler, so the first delivered
    transaction creates the fee collector's account (it receives the fee). -/
def deliverTx (st : St) (tx : Tx) : St :=
  let st := if tx.hasMeta && decide (tx.height > 0) then tx.sinfo.foldl forceSet st else st
  if tx.hasMeta && tx.failed then { st with results := st.results ++ [.skip] } else
  let st := match st.fc with
    | some _ => st
    | none => { st with fc := some st.next, next := st.next + 1 }
  let r := execKind st tx.kind
  { r.1 with results := r.1.results ++ [r.2] }

def applyBalances (st : St) (bs : List Bal) : St := bs.foldl applyBalance st
def deliverAll (st : St) (txs : List Tx) : St := txs.foldl deliverTx st

/-- `validateSignerInfo`: account number -> address reserving it. -/
def sigStep (m : Option (List (Nat × Addr))) (si : SInfo) : Option (List (Nat × Addr)) :=
  match m with
  | none => none
  | some m =>
    match (m.find? (·.1 == si.num)).map (·.2) with
    | some a => if a ≠ si.addr then none else some ((si.num, si.addr) :: m)
    | none => some ((si.num, si.addr) :: m)

def reservations (bs : List Bal) : List (Nat × Addr) :=
  (bs.zipIdx.map fun (b, i) => (i, b.addr)).reverse

def signerInfoOK (g : Genesis) : Bool :=
  let m := g.txs.foldl (fun m tx => if tx.hasMeta then tx.sinfo.foldl sigStep m else m)
    (some (reservations g.balances))
  m.isSome

inductive Refusal | initialHeight | gasReplayMode | signerInfo | missingBank | missingAuth
deriving DecidableEq, Repr

inductive Panic | valoper | authGenesis
deriving DecidableEq, Repr

inductive Outcome
  | refuse (c : Refusal)             -- ResponseInitChain.Error
  | panic (c : Panic)                -- InitChain panics: the node does not boot
  | ok (ver : Nat) (st : St)         -- boots; `ver` = version of the first commit
deriving DecidableEq, Repr

def firstVersion (reqIH : Nat) : Nat := if reqIH > 1 then reqIH else 1

/-- the hardfork-mode assertion (only reached with a `GnoGenesisState`) -/
def valoperFires (g : Genesis) (st : St) : Bool :=
  decide (g.pastChains > 0) && decide (g.validators > 0) && (st.v3 == some false)

/-- `GenesisDocFromFile` + `applyInMemoryAppState` + the assertion in `InitChainer`. -/
def outcomeMem (g : Genesis) : Outcome :=
  if g.appIH ≠ 0 ∧ g.appIH ≠ g.topIH then .refuse .initialHeight else
  if g.grm = .bogus then .refuse .gasReplayMode else
  if ¬ signerInfoOK g then .refuse .signerInfo else
  if g.omitAuth then .panic .authGenesis else      -- auth.InitGenesis: "auth genesis state cannot be empty"
  let st := deliverAll (applyBalances {} g.balances) g.txs
  if valoperFires g st then .panic .valoper else
  .ok (firstVersion g.topIH) st

/-- What the iterators of a `GenesisStateRef` deliver: the elements of the two bulk
    arrays, in some grouping (buffer refills of the 1 MiB reader). -/
structure Streamed where
  balChunks : List (List Bal)
  txChunks : List (List Tx)

/-- `LoadStreamingGenesisDoc` + `applyStreamingAppState`: the request's InitialHeight is
    always 0 (never decoded), no InitialHeight / SignerInfo pre-checks, no assertion. -/
def outcomeStream (g : Genesis) (s : Streamed) : Outcome :=
  if g.omitBank then .refuse .missingBank else
  if g.omitAuth then .refuse .missingAuth else
  let st := s.balChunks.foldl (fun st c => c.foldl applyBalance st) {}
  if g.grm = .bogus then .refuse .gasReplayMode else
  let st := s.txChunks.foldl (fun st c => c.foldl deliverTx st) st
  .ok (firstVersion 0) st

def Streamed.whole (g : Genesis) : Streamed := ⟨[g.balances], [g.txs]⟩

/-! ## JSONL framing (`streamArrayToJSONL` / `iterJSONL`) -/

abbrev Bytes := List UInt8

def nl : UInt8 := 10

/-- writer: every element followed by `\n` -/
def writeLines (ls : List Bytes) : Bytes := ls.flatMap (· ++ [nl])

/-- reader: `ReadBytes('\n')` until EOF; a last line without newline is still yielded,
    nothing is yielded for an empty remainder. `cur` is the line read so far (reversed). -/
def readLinesAux : Bytes → Bytes → List Bytes
  | [], cur => if cur.isEmpty then [] else [cur.reverse]
  | b :: rest, cur => if b = nl then cur.reverse :: readLinesAux rest [] else readLinesAux rest (b :: cur)

def readLines (file : Bytes) : List Bytes := readLinesAux file []

end GnoVerif.C53
