/-!
# C45 — model of the bech32 code gno calls

Real code:
* `tm2/pkg/bech32/bech32.go`        `ConvertAndEncode` / `DecodeAndConvert`
* `github.com/btcsuite/btcd/btcutil@v1.2.0/bech32/bech32.go`
  `ConvertBits`, `Encode` (`encodeGeneric`, Version0), `DecodeNoLimit`
  (`DecodeNoLimitWithVersion`), `bech32Polymod`, `writeBech32Checksum`,
  `bech32VerifyChecksum`, `toBytes`
* `tm2/pkg/crypto/bech32.go`        `GetFromBech32`, `AddressFromBech32`

Strings are `List UInt8` (Go strings are byte strings; every check in the code
is per byte).  5-bit symbols are `Nat`.  The checksum state is `BitVec 32`
(Go uses `int`; the value never leaves 30 bits — lemma `polymodStep_lt`).

Quirks mirrored (all visible to the differential run):
* the decoder accepts BOTH checksum constants, `1` (BIP-173 bech32) and
  `0x2bc830a3` (BIP-350 bech32m), because `DecodeNoLimit` drops the version
  that `bech32VerifyChecksum` looked up in `ConstsToVersion`;
* the encoder lower-cases the prefix and does not validate it at all;
* `DecodeNoLimit` has no 90-character limit;
* the character-range check and the mixed-case check run in ONE loop, so the
  first offending position decides which of the two errors is returned;
* the separator is the LAST `'1'`.

Core-only (no Mathlib): this file is linked into the driver executable.
-/
namespace GnoVerif.C45

abbrev Bytes := List UInt8

/-- canonical error classes (one per Go error type / message). -/
inductive Err
  | length     -- ErrInvalidLength            len < 8
  | char       -- ErrInvalidCharacter         byte outside 33..126
  | mixed      -- ErrMixedCase
  | sep        -- ErrInvalidSeparatorIndex
  | charset    -- ErrNonCharsetChar           data character outside the charset
  | checksum   -- ErrInvalidChecksum
  | padding    -- ErrInvalidIncompleteGroup   (ConvertBits 5→8, pad=false)
  | databyte   -- ErrInvalidDataByte          (Encode: 5-bit value ≥ 32)
  | bitgroups  -- ErrInvalidBitGroups         (ConvertBits: from/to outside 1..8)
  | empty      -- GetFromBech32: empty string
  | pfx        -- GetFromBech32: hrp ≠ expected prefix
  | addrlen    -- AddressFromBytes: len ≠ 20
  deriving DecidableEq, Repr

def Err.token : Err → String
  | .length => "err:length" | .char => "err:char" | .mixed => "err:mixed"
  | .sep => "err:sep" | .charset => "err:charset" | .checksum => "err:checksum"
  | .padding => "err:padding" | .databyte => "err:databyte"
  | .bitgroups => "err:bitgroups" | .empty => "err:empty" | .pfx => "err:prefix"
  | .addrlen => "err:addrlen"

/-! ## constants -/

/-- `const charset = "qpzry9x8gf2tvdw0s3jn54khce6mua7l"` as bytes. -/
def charset : Bytes :=
  [113, 112, 122, 114, 121, 57, 120, 56, 103, 102, 50, 116, 118, 100, 119, 48,
   115, 51, 106, 110, 53, 52, 107, 104, 99, 101, 54, 109, 117, 97, 55, 108]

def gen0 : BitVec 32 := 0x3b6a57b2#32
def gen1 : BitVec 32 := 0x26508e6d#32
def gen2 : BitVec 32 := 0x1ea119fa#32
def gen3 : BitVec 32 := 0x3d4233dd#32
def gen4 : BitVec 32 := 0x2a1462b3#32

/-- `Version0Const` -/
def const0 : BitVec 32 := 1#32
/-- `VersionMConst` -/
def constM : BitVec 32 := 0x2bc830a3#32

/-! ## bytes, case -/

def isLower (c : UInt8) : Bool := 97 ≤ c && c ≤ 122
def isUpper (c : UInt8) : Bool := 65 ≤ c && c ≤ 90

/-- `strings.ToLower` restricted to ASCII input (the decoder only calls it
after every byte was checked to be in 33..126; the driver refuses to model
`Encode` on a prefix with a byte ≥ 0x80, where Go switches to Unicode
mapping). -/
def lower (c : UInt8) : UInt8 := if isUpper c then c + 32 else c

def lowerAll (s : Bytes) : Bytes := s.map lower

/-! ## checksum -/

/-- `for i := 0; i < 5; i++ { if (b>>uint(i))&1 == 1 { chk ^= gen[i] } }` as a value. -/
def genMix (b : BitVec 32) : BitVec 32 :=
  (if b.getLsbD 0 then gen0 else 0#32) ^^^
  (if b.getLsbD 1 then gen1 else 0#32) ^^^
  (if b.getLsbD 2 then gen2 else 0#32) ^^^
  (if b.getLsbD 3 then gen3 else 0#32) ^^^
  (if b.getLsbD 4 then gen4 else 0#32)

/-- the part of one round that depends on the state only:
`b := chk >> 25; chk = (chk & 0x1ffffff) << 5; chk ^= gen[i] …` -/
def shiftMix (chk : BitVec 32) : BitVec 32 :=
  ((chk &&& 0x1ffffff#32) <<< 5) ^^^ genMix (chk >>> 25)

/-- one round of `bech32Polymod` with input symbol `v`. -/
def polymodStep (chk v : BitVec 32) : BitVec 32 := shiftMix chk ^^^ v

def sym (v : Nat) : BitVec 32 := BitVec.ofNat 32 v

/-- high bits, the `0` separator, low bits — the first three loops of `bech32Polymod`. -/
def hrpExpand (hrp : Bytes) : List (BitVec 32) :=
  hrp.map (fun c => sym (c.toNat >>> 5)) ++ [0#32] ++ hrp.map (fun c => sym (c.toNat &&& 31))

/-- `bech32Polymod(hrp, values, checksum)` with `values ++ checksum` passed as one list. -/
def polymod (hrp : Bytes) (values : List Nat) : BitVec 32 :=
  (hrpExpand hrp ++ values.map sym).foldl polymodStep 1#32

/-- the six checksum symbols `writeBech32Checksum` emits (Version0). -/
def checksumSyms (p : BitVec 32) : List Nat :=
  [((p >>> 25) &&& 31#32).toNat, ((p >>> 20) &&& 31#32).toNat, ((p >>> 15) &&& 31#32).toNat,
   ((p >>> 10) &&& 31#32).toNat, ((p >>> 5) &&& 31#32).toNat, ((p >>> 0) &&& 31#32).toNat]

def createChecksum (hrp : Bytes) (data : List Nat) : List Nat :=
  checksumSyms (polymod hrp (data ++ [0, 0, 0, 0, 0, 0]) ^^^ const0)

/-- `bech32VerifyChecksum`: the final state must be one of the two registered constants. -/
def verifyChecksum (hrp : Bytes) (decoded : List Nat) : Bool :=
  let p := polymod hrp decoded
  p == const0 || p == constM

/-! ## ConvertBits

The model is the meaning of the Go loop: write the low `fromBits` bits of
every input byte MSB-first, cut the bit string into groups of `toBits`.
(The Go code extracts `min(remFromBits, remToBits)` bits per inner iteration;
`convertBitsGo` below is the literal transcription, and the driver runs both
and reports any difference between them as a model defect.) -/

/-- the low `w` bits of `x`, most significant first. -/
def bitsOf : Nat → Nat → List Bool
  | 0, _ => []
  | w + 1, x => x.testBit w :: bitsOf w x

/-- big-endian value of a bit list. -/
def ofBits (bs : List Bool) : Nat := bs.foldl (fun a b => 2 * a + b.toNat) 0

/-- complete groups of `n` bits, and the incomplete rest (shorter than `n`). -/
def chunks (n : Nat) (bs : List Bool) : List (List Bool) × List Bool :=
  if _h : n = 0 ∨ bs.length < n then ([], bs)
  else
    let r := chunks n (bs.drop n)
    (bs.take n :: r.1, r.2)
termination_by bs.length
decreasing_by
  simp only [List.length_drop]
  omega

def convertBits (fromBits toBits : Nat) (pad : Bool) (data : List Nat) : Except Err (List Nat) :=
  if fromBits < 1 ∨ fromBits > 8 ∨ toBits < 1 ∨ toBits > 8 then .error .bitgroups
  else
    let bits := data.flatMap (bitsOf fromBits)
    let c := chunks toBits bits
    let full := c.1.map ofBits
    let rest := c.2
    if rest.isEmpty then .ok full
    else if pad then .ok (full ++ [ofBits (rest ++ List.replicate (toBits - rest.length) false)])
    else if rest.length > 4 ∨ ofBits rest ≠ 0 then .error .padding
    else .ok full

/-! ### literal transcription of `ConvertBits` (bytes are `Nat` reduced mod 256) -/

structure CvState where
  nextByte : Nat
  filledBits : Nat
  out : List Nat

/-- the inner `for remFromBits > 0` loop; `fuel` ≥ remFromBits suffices
(every iteration extracts at least one bit). -/
def cvInner (toBits : Nat) : Nat → Nat → Nat → CvState → CvState
  | 0, _, _, st => st
  | fuel + 1, b, remFromBits, st =>
    if remFromBits = 0 then st else
    let remToBits := toBits - st.filledBits
    let toExtract := if remToBits < remFromBits then remToBits else remFromBits
    let nextByte := ((st.nextByte <<< toExtract) % 256) ||| (b >>> (8 - toExtract))
    let b := (b <<< toExtract) % 256
    let remFromBits := remFromBits - toExtract
    let filledBits := st.filledBits + toExtract
    if filledBits = toBits then
      cvInner toBits fuel b remFromBits { nextByte := 0, filledBits := 0, out := st.out ++ [nextByte] }
    else
      cvInner toBits fuel b remFromBits { nextByte := nextByte, filledBits := filledBits, out := st.out }

def convertBitsGo (fromBits toBits : Nat) (pad : Bool) (data : List Nat) : Except Err (List Nat) :=
  if fromBits < 1 ∨ fromBits > 8 ∨ toBits < 1 ∨ toBits > 8 then .error .bitgroups
  else
    let st := data.foldl
      (fun st b => cvInner toBits 8 ((b <<< (8 - fromBits)) % 256) fromBits st)
      ({ nextByte := 0, filledBits := 0, out := [] } : CvState)
    let st :=
      if pad ∧ st.filledBits > 0 then
        { nextByte := 0, filledBits := 0,
          out := st.out ++ [(st.nextByte <<< (toBits - st.filledBits)) % 256] : CvState }
      else st
    if st.filledBits > 0 ∧ (st.filledBits > 4 ∨ st.nextByte ≠ 0) then .error .padding
    else .ok st.out

/-! ## Encode -/

/-- `charset[b]` (the caller has checked `b < 32`). -/
def charAt (v : Nat) : UInt8 := charset.getD v 0

/-- `bech32.Encode(hrp, data)` = `encodeGeneric(hrp, data, Version0)`. -/
def encode5 (hrp : Bytes) (data : List Nat) : Except Err Bytes :=
  let hrp := lowerAll hrp
  if data.any (fun b => decide (b ≥ 32)) then .error .databyte
  else .ok (hrp ++ [49] ++ (data ++ createChecksum hrp data).map charAt)

/-- `tm2/pkg/bech32.ConvertAndEncode` (= `Encode`). -/
def encode (hrp : Bytes) (data : Bytes) : Except Err Bytes :=
  match convertBits 8 5 true (data.map UInt8.toNat) with
  | .error e => .error e
  | .ok conv => encode5 hrp conv

/-! ## Decode -/

/-- the first loop of `DecodeNoLimitWithVersion`; returns `hasUpper`. -/
def scan : Bytes → Bool → Bool → Except Err Bool
  | [], _, hasUpper => .ok hasUpper
  | c :: cs, hasLower, hasUpper =>
    if c < 33 ∨ c > 126 then .error .char
    else
      let hasLower := hasLower || isLower c
      let hasUpper := hasUpper || isUpper c
      if hasLower && hasUpper then .error .mixed
      else scan cs hasLower hasUpper

/-- `strings.LastIndexByte` (`none` = -1). -/
def lastIdx (c : UInt8) : Bytes → Option Nat
  | [] => none
  | x :: xs =>
    match lastIdx c xs with
    | some i => some (i + 1)
    | none => if x = c then some 0 else none

/-- `strings.IndexByte(charset, ch)` (`none` = -1). -/
def charsetIdx (ch : UInt8) : Option Nat :=
  let i := charset.idxOf ch
  if i < 32 then some i else none

/-- `toBytes` -/
def toBytes : Bytes → Except Err (List Nat)
  | [] => .ok []
  | c :: cs =>
    match charsetIdx c with
    | none => .error .charset
    | some i =>
      match toBytes cs with
      | .error e => .error e
      | .ok r => .ok (i :: r)

/-- the part of `DecodeNoLimitWithVersion` after case normalisation. -/
def decodeLower (s : Bytes) : Except Err (Bytes × List Nat) :=
  match lastIdx 49 s with
  | none => .error .sep
  | some one =>
    if one < 1 ∨ one + 7 > s.length then .error .sep
    else
      let hrp := s.take one
      let data := s.drop (one + 1)
      match toBytes data with
      | .error e => .error e
      | .ok decoded =>
        if verifyChecksum hrp decoded then .ok (hrp, decoded.take (decoded.length - 6))
        else .error .checksum

/-- `bech32.DecodeNoLimit` -/
def decode5 (s : Bytes) : Except Err (Bytes × List Nat) :=
  if s.length < 8 then .error .length
  else
    match scan s false false with
    | .error e => .error e
    | .ok hasUpper => decodeLower (if hasUpper then lowerAll s else s)

/-- `tm2/pkg/bech32.DecodeAndConvert` (= `Decode`). -/
def decode (s : Bytes) : Except Err (Bytes × Bytes) :=
  match decode5 s with
  | .error e => .error e
  | .ok (hrp, d5) =>
    match convertBits 5 8 false d5 with
    | .error e => .error e
    | .ok d8 => .ok (hrp, d8.map UInt8.ofNat)

/-! ## tm2/pkg/crypto -/

/-- `crypto.GetFromBech32` -/
def getFromBech32 (s pfx : Bytes) : Except Err Bytes :=
  if s.length = 0 then .error .empty
  else
    match decode s with
    | .error e => .error e
    | .ok (hrp, bz) => if hrp ≠ pfx then .error .pfx else .ok bz

/-- `Bech32AddrPrefix()` default: "g" -/
def addrPrefix : Bytes := [103]

/-- `crypto.AddressFromBech32` (default prefix). -/
def addressFromBech32 (s : Bytes) : Except Err Bytes :=
  match getFromBech32 s addrPrefix with
  | .error e => .error e
  | .ok bz => if bz.length ≠ 20 then .error .addrlen else .ok bz

end GnoVerif.C45
