import GnoVerif.Model.C04Eval
/-!
C04 — pinned witnesses of defects of the unchanged gnolang/gno tree
(known_findings/C04.json).  Each witness is the MiniGo tree that
`harness/minigo/known.go` serialises into `corpus/C04/kf-<key>.ops`, together
with two recorded answers:

* `…_go`  — what the model computes = what the native Go toolchain prints
  (checked by the driver on every run, and proved in Props/C04.lean);
* `…_gno` — what the GnoVM was OBSERVED to do on the unchanged tree, recorded
  as a constant.  The driver answers a `kf <key> prog …` line with this
  constant, so the correspondence run fails as soon as the GnoVM's behaviour on
  the witness changes (e.g. the defect gets fixed).

The model itself follows the Go specification on these programs: it does not
reproduce the defects.
-/
namespace GnoVerif.C04.Known

/-- `var a uint16 = 3527; x := a; x >>= uint8(a) & 7; println(x)` -/
def shiftAssignMain : FuncDecl := { name := "main", params := [], results := [], body := [
  .varDecl "a" (.int .u16) (some (.lit (.int .u16 3527))),
  .define ["x"] (.var "a"),
  .opAssign .shr (.var "x") (.bin (.ar .and) (.conv (.int .u8) (.var "a")) (.lit (.int .u8 7))),
  .print [.var "x"]] }
def shiftAssign : Program := { types := [], funcs := #[shiftAssignMain], globals := [], entry := 0 }
/-- Go: 3527 >> 7 = 27 -/
def shiftAssign_go : String := "ok 27|"
/-- GnoVM: the count is read as all 8 bytes of the operand cell (0x0D07 = 3335), giving 0 -/
def shiftAssign_gno : String := "ok 0|"

/-- `a := 1; v := (a < 2) || (3 <= 4); w := !v; println(w)` -/
def untypedBoolMain : FuncDecl := { name := "main", params := [], results := [], body := [
  .define ["a"] (.lit (.int .int 1)),
  .define ["v"] (.lor (.bin (.cmp .lt) (.var "a") (.lit (.int .int 2)))
                      (.bin (.cmp .le) (.lit (.int .int 3)) (.lit (.int .int 4)))),
  .define ["w"] (.un .not (.var "v")),
  .print [.var "w"]] }
def untypedBool : Program := { types := [], funcs := #[untypedBoolMain], globals := [], entry := 0 }
def untypedBool_go : String := "ok false|"
/-- GnoVM: "cannot convert v (of type <untyped> bool) to type bool" while preprocessing -/
def untypedBool_gno : String := "err:preprocess"

/-- `switch { case true: x := 1; println(x); fallthrough; default: println("d") }` -/
def fallShrinkMain : FuncDecl := { name := "main", params := [], results := [], body := [
  .switchS none none none [
    (some [.lit (.bool true)], [.define ["x"] (.lit (.int .int 1)), .print [.var "x"], .fallthroughS]),
    (none, [.print [.lit (.str [100])]])]] }
def fallShrink : Program := { types := [], funcs := #[fallShrinkMain], globals := [], entry := 0 }
def fallShrink_go : String := "ok 1|d|"
/-- GnoVM: Go-level panic "unexpected block size shrinkage: 1 vs 0" after printing 1 -/
def fallShrink_gno : String := "crash:vm-panic 1|"

/-- `func inner() { defer func() { println("rec", recover() != nil) }(); panic("B") }`
    `func main()  { defer func() { inner(); println("after inner") }(); panic("A") }` -/
def nestedRecoverInner : FuncDecl := { name := "inner", params := [], results := [], body := [
  .deferS (.funcLit 1) [],
  .panicS (.box .str (.lit (.str [66])))] }
def nestedRecoverLit1 : FuncDecl := { name := "lit1", params := [], results := [], body := [
  .print [.lit (.str [114, 101, 99]), .bin (.cmp .ne) .recover (.nilE .any)]] }
def nestedRecoverMain : FuncDecl := { name := "main", params := [], results := [], body := [
  .deferS (.funcLit 3) [],
  .panicS (.box .str (.lit (.str [65])))] }
def nestedRecoverLit3 : FuncDecl := { name := "lit3", params := [], results := [], body := [
  .exprS (.call (.var "inner") []),
  .print [.lit (.str [97, 102, 116, 101, 114, 32, 105, 110, 110, 101, 114])]] }
def nestedRecover : Program :=
  { types := [], funcs := #[nestedRecoverInner, nestedRecoverLit1, nestedRecoverMain, nestedRecoverLit3],
    globals := [], entry := 2 }
/-- Go: the deferred function goes on after `inner` has recovered its own panic -/
def nestedRecover_go : String := "panic:user s:A rec true|after inner|"
/-- GnoVM: the rest of the deferred function is abandoned -/
def nestedRecover_gno : String := "panic:user s:A rec true|"
/-- the printed lines only (the theorem compares these; both runs end with panic "A") -/
def nestedRecover_goOut : Array String := #["rec true|", "after inner|"]
def nestedRecover_gnoOut : Array String := #["rec true|"]

/-- recorded answers by key: (what Go / the model gives, what the GnoVM was observed to give) -/
def recorded : String → Option (String × String)
  | "shift-assign-narrow-count" => some (shiftAssign_go, shiftAssign_gno)
  | "untyped-bool-rejected" => some (untypedBool_go, untypedBool_gno)
  | "fallthrough-block-shrink" => some (fallShrink_go, fallShrink_gno)
  | "nested-recover-abandons-defer" => some (nestedRecover_go, nestedRecover_gno)
  | _ => none

end GnoVerif.C04.Known
