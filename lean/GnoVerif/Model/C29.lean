/-
Model.C29 — the tm2/pkg/db backends and wrappers as ONE executable state
machine parameterised by the backend (DESIGN.md §7 C29).

What is mirrored (read line by line from /repo/tm2/pkg/db):

* every backend keeps an ordered map of *physical* keys; `Get/Has/Set/Delete`
  turn a nil key into the empty key (`internal.NonNilBytes`) and a nil value
  into the empty value; boltdb / lmdbdb / mdbxdb then replace the empty key by
  a sentinel user key (`nonEmptyKey`: "nil" resp. 0x00) — iterators do not
  translate, so the sentinel is visible and collides with the real key of the
  same bytes (`Backend.sentinel`);
* iterators: all backends yield exactly the keys in `[start, end)` (nil start =
  from the first key, nil end = to the last) ascending or descending; lmdbdb
  fails with MDB_BAD_VALSIZE when the bound it seeks to is an empty non-nil
  slice (`Backend.emptyBoundErr`);
* memdb stores the caller's value slice and hands the stored slice out again
  from `Get` and `Iterator.Value` (`Backend.aliases`); a value buffer is a
  `Cell` (identity + contents) so that a write through one alias is seen
  through all of them (db, snapshots = shallow `maps.Clone`, staged batch ops);
* batches: staged op list, `Write` applies it in order in one step, `Close`
  drops it; after `Write` memdb/goleveldb/boltdb keep the ops and re-apply them
  on a second `Write`, lmdbdb/mdbxdb answer an error, pebble panics
  (`Backend.afterWrite`); memdb/boltdb/lmdbdb/mdbxdb keep the caller's key and
  value slices in the staged op (`Backend.batchRetains`);
* snapshots exist for memdb and pebbledb only (`Backend.snapshots`);
* wrappers: `PrefixDB` (key prefixing, `cpIncr` end bound and its panic on an
  empty prefix, prefix-stripping iterator that stops at the first foreign key,
  no snapshots), `ImmutableDB`, `SnapshotDB`
  (read-only no-op batch), `CollectingDB` + `BatchCollector` (write log with
  read-your-writes for point reads, pass-through iterators, `Drain`).

Values returned by iterators print nil and empty alike (pebble's reverse
iterator yields nil for an empty value); `Get` keeps nil = absent.

Core-only.  Everything is a total function on lists.
-/
import GnoVerif.Spec.OMap

namespace GnoVerif.C29
open GnoVerif

/-! ## backends -/

inductive Backend
  | mem | ldb | peb | blt | lmdb | mdbx
  deriving DecidableEq, Repr, Inhabited

inductive Reuse
  | reapply | error | panic
  deriving DecidableEq, Repr

namespace Backend

/-- `nonEmptyKey`: the user key that stands in for the empty key. -/
def sentinel : Backend → Option Bytes
  | blt => some [0x6e, 0x69, 0x6c]
  | lmdb => some [0]
  | mdbx => some [0]
  | _ => none

/-- `Set` keeps the caller's value slice, `Get` / `Iterator.Value` return the stored slice. -/
def aliases : Backend → Bool
  | mem => true
  | _ => false

/-- a staged batch op keeps the caller's key and value slices. -/
def batchRetains : Backend → Bool
  | mem | blt | lmdb | mdbx => true
  | _ => false

def snapshots : Backend → Bool
  | mem | peb => true
  | _ => false

/-- cursor `SetRange` with an empty (non-nil) key is an error. -/
def emptyBoundErr : Backend → Bool
  | lmdb => true
  | _ => false

/-- what `Set/Delete/Write` do on a batch that has been written. -/
def afterWrite : Backend → Reuse
  | mem | ldb | blt => .reapply
  | lmdb | mdbx => .error
  | peb => .panic

/-- physical key of a (non-nil) user key. -/
def phys (b : Backend) (k : Bytes) : Bytes :=
  if k = [] then (b.sentinel.getD []) else k

end Backend

/-! ## buffers, state -/

/-- a value buffer: identity and contents. -/
structure Cell where
  id : Nat
  val : Bytes
  deriving Repr, DecidableEq

abbrev PMap := OMapOf Cell

def flipBytes (v : Bytes) : Bytes := v.map (fun b => b ^^^ 255)

def Cell.flipIf (ids : List Nat) (c : Cell) : Cell :=
  if ids.contains c.id then { c with val := flipBytes c.val } else c

/-- a staged batch op. -/
structure BOp where
  del : Bool
  key : Bytes
  cell : Cell
  deriving Repr

inductive BKind
  | real            -- the backend's own batch
  | noop            -- readonlyNoopBatch (ImmutableDB / SnapshotDB)
  | coll (c : Nat)  -- CollectingDB's batchHandle on collector `c`
  deriving Repr, DecidableEq

structure Batch where
  id : Nat
  kind : BKind
  /-- prefixes added by `prefixBatch` wrappers, outermost database last. -/
  pfx : Bytes
  ops : List BOp
  written : Bool
  deriving Repr

/-- one recorded op of a `BatchCollector`; `cell = none` is a nil value
(`append([]byte(nil), value...)` of an empty value). -/
structure COp where
  del : Bool
  key : Bytes
  cell : Option Cell
  deriving Repr

/-- database handles. -/
inductive Db
  | root
  | pfx (p : Bytes) (parent : Db)
  | immut (parent : Db)
  | snapdb (s : Nat)
  | coll (c : Nat) (parent : Db)
  deriving Repr

structure State where
  be : Backend
  db : PMap
  dbs : List (Nat × Db)
  batches : List Batch
  snaps : List (Nat × PMap)
  colls : List (Nat × List COp)
  next : Nat
  deriving Repr

def State.init (b : Backend) : State :=
  { be := b, db := [], dbs := [(0, .root)], batches := [], snaps := [], colls := [], next := 0 }

inductive Out
  | ok
  | val (v : Option Bytes)
  | bool (b : Bool)
  | items (l : List (Bytes × Bytes))
  | err (c : String)
  | panic (c : String)
  deriving Repr, DecidableEq

/-! ## small helpers -/

def lookup {α : Type} (l : List (Nat × α)) (i : Nat) : Option α :=
  match l.find? (fun p => p.1 == i) with
  | some p => some p.2
  | none => none

def remove {α : Type} (l : List (Nat × α)) (i : Nat) : List (Nat × α) :=
  l.filter (fun p => p.1 != i)

def replace {α : Type} (l : List (Nat × α)) (i : Nat) (a : α) : List (Nat × α) :=
  l.map (fun p => if p.1 == i then (i, a) else p)

def State.findBatch (st : State) (i : Nat) : Option Batch := st.batches.find? (fun b => b.id == i)

def State.putBatch (st : State) (b : Batch) : State :=
  { st with batches := st.batches.map (fun x => if x.id == b.id then b else x) }

def State.dropBatch (st : State) (i : Nat) : State :=
  { st with batches := st.batches.filter (fun x => x.id != i) }

/-- a fresh buffer holding `v`. -/
def State.alloc (st : State) (v : Bytes) : Cell × State :=
  (⟨st.next, v⟩, { st with next := st.next + 1 })

/-- flip the contents of the buffers `ids` wherever they are referenced. -/
def State.flip (st : State) (ids : List Nat) : State :=
  let fm : PMap → PMap := fun m => m.map (fun p => (p.1, p.2.flipIf ids))
  { st with
    db := fm st.db
    snaps := st.snaps.map (fun s => (s.1, fm s.2))
    batches := st.batches.map (fun b => { b with ops := b.ops.map (fun o => { o with cell := o.cell.flipIf ids }) })
    colls := st.colls.map (fun c => (c.1, c.2.map (fun o => { o with cell := o.cell.map (Cell.flipIf ids) }))) }

/-- `db.cpIncr` (tm2/pkg/db/util.go) for a non-empty slice: the shortest byte
string greater than every string with prefix `bz` (increment as a big-endian
number and drop the bytes that wrapped from 0xFF); nil when all bytes are
0xFF.  That is `Lex.prefixEnd`.  (Go panics on an empty slice; the callers
below check that first.) -/
def cpIncr (bz : Bytes) : Option Bytes := Lex.prefixEnd bz

/-- the collector's `pending` lookup: the latest op recorded for `k`. -/
def collGet (ops : List COp) (k : Bytes) : Option COp := ops.reverse.find? (fun o => o.key == k)

/-! ## the backend itself (handle `root`) -/

/-- `Set` on the backend: memdb stores the caller's buffer, the others a copy. -/
def rootSet (st : State) (k : Bytes) (c : Cell) : State :=
  if st.be.aliases then { st with db := OMap.set st.db (st.be.phys k) c }
  else
    let (c', st) := st.alloc c.val
    { st with db := OMap.set st.db (st.be.phys k) c' }

def rootDel (st : State) (k : Bytes) : State :=
  { st with db := OMap.del st.db (st.be.phys k) }

def rootGet (st : State) (k : Bytes) : Option Cell := OMap.get st.db (st.be.phys k)

/-- `Iterator` / `ReverseIterator` on the backend, drained. -/
def rootIter (st : State) (asc : Bool) (s e : Option Bytes) : Except Out (List (Bytes × Cell)) :=
  if st.be.emptyBoundErr && ((asc && s == some []) || (!asc && e == some [])) then .error (.err "valsize")
  else .ok (OMap.range st.db s e asc)

/-! ## handles -/

/-- `Get` through a handle: the buffer found, or `none`.  The outer `Option`
is `none` when a `SnapshotDB` refers to a missing snapshot (excluded by the
protocol). -/
def dbGet (st : State) : Db → Bytes → Option (Option Cell)
  | .root, k => some (rootGet st k)
  | .pfx p par, k => dbGet st par (p ++ k)
  | .immut par, k => dbGet st par k
  | .snapdb s, k => (lookup st.snaps s).map (fun m => OMap.get m k)
  | .coll c par, k =>
    match collGet ((lookup st.colls c).getD []) k with
    | some o => some (if o.del then none else o.cell)
    | none => dbGet st par k

/-- `Has` through a handle (`v != nil` on the engines whose stored values are
never nil; the collector answers from its own log). -/
def dbHas (st : State) : Db → Bytes → Option Bool
  | .root, k => some (rootGet st k).isSome
  | .pfx p par, k => dbHas st par (p ++ k)
  | .immut par, k => dbHas st par k
  | .snapdb s, k => (lookup st.snaps s).map (fun m => (OMap.get m k).isSome)
  | .coll c par, k =>
    match collGet ((lookup st.colls c).getD []) k with
    | some o => some (!o.del)
    | none => dbHas st par k

/-- a drained iterator through a handle. -/
def dbIter (st : State) : Db → Bool → Option Bytes → Option Bytes → Except Out (List (Bytes × Cell))
  | .root, asc, s, e => rootIter st asc s e
  | .pfx p par, asc, s, e =>
    let ps := some (p ++ s.getD [])
    let pe : Except Out (Option Bytes) :=
      match e with
      | some e => .ok (some (p ++ e))
      | none => if p = [] then .error (.panic "cpincr") else .ok (cpIncr p)
    match pe with
    | .error o => .error o
    | .ok pe =>
      match dbIter st par asc ps pe with
      | .error o => .error o
      | .ok l => .ok ((l.takeWhile (fun it => Lex.hasPrefix p it.1)).map (fun it => (it.1.drop p.length, it.2)))
  | .immut par, asc, s, e => dbIter st par asc s e
  | .snapdb i, asc, s, e =>
    match lookup st.snaps i with
    | some m => .ok (OMap.range m s e asc)
    | none => .error (.err "nohandle")
  | .coll _ par, asc, s, e => dbIter st par asc s e

def appendColl (st : State) (c : Nat) (ops : List COp) : State :=
  { st with colls := replace st.colls c ((lookup st.colls c).getD [] ++ ops) }

/-- a copy as `append([]byte(nil), value...)` makes it: nil for an empty value. -/
def copyNil (st : State) (v : Bytes) : Option Cell × State :=
  if v = [] then (none, st) else let (c, st) := st.alloc v; (some c, st)

/-- `Set` through a handle. -/
def dbSet (st : State) : Db → Bytes → Cell → State × Out
  | .root, k, c => (rootSet st k c, .ok)
  | .pfx p par, k, c => dbSet st par (p ++ k) c
  | .immut _, _, _ => (st, .panic "readonly")
  | .snapdb _, _, _ => (st, .panic "readonly")
  | .coll i _, k, c =>
    let (c', st) := copyNil st c.val
    (appendColl st i [⟨false, k, c'⟩], .ok)

/-- `Delete` through a handle. -/
def dbDel (st : State) : Db → Bytes → State × Out
  | .root, k => (rootDel st k, .ok)
  | .pfx p par, k => dbDel st par (p ++ k)
  | .immut _, _ => (st, .panic "readonly")
  | .snapdb _, _ => (st, .panic "readonly")
  | .coll i _, k => (appendColl st i [⟨true, k, none⟩], .ok)

/-- which batch `NewBatch` on a handle returns: kind and accumulated prefix. -/
def dbBatch : Db → BKind × Bytes
  | .root => (.real, [])
  | .pfx p par => let (k, q) := dbBatch par; (k, q ++ p)
  | .immut _ => (.noop, [])
  | .snapdb _ => (.noop, [])
  | .coll c _ => (.coll c, [])

/-- `NewSnapshot` on a handle: the map it freezes, or the error. -/
def dbSnap (st : State) : Db → Except Out PMap
  | .root => if st.be.snapshots then .ok st.db else .error (.err "nosnap")
  | .pfx _ _ => .error (.err "nosnap")
  | .immut par => dbSnap st par
  | .snapdb s =>
    match lookup st.snaps s with
    | some m => .ok m
    | none => .error (.err "nohandle")
  | .coll _ par => dbSnap st par

/-! ## batches -/

/-- apply one staged op of a backend batch to the database. -/
def applyOp (st : State) (o : BOp) : State :=
  if o.del then rootDel st o.key else rootSet st o.key o.cell

/-- `Write`: the staged ops, in order. -/
def applyOps (st : State) (ops : List BOp) : State := ops.foldl applyOp st

/-- the answer of a written backend batch to any further `Set/Delete/Write`,
`none` when the op is carried out. -/
def reuseOut (b : Backend) : Option Out :=
  match b.afterWrite with
  | .reapply => none
  | .error => some (.err "batchdone")
  | .panic => some (.panic "batchdone")

/-- stage one op. `c` is the caller's value buffer, `retKey` says whether the
caller's *key* slice itself is kept (only a backend batch used directly). -/
def batchStage (st : State) (b : Batch) (del : Bool) (k : Bytes) (c : Cell) : State × Out :=
  match b.kind with
  | .noop => (st, .ok)
  | .coll _ =>
    -- batchHandle copies key and value (`cp`: empty stays non-nil)
    let (c', st) := st.alloc c.val
    (st.putBatch { b with ops := b.ops ++ [⟨del, b.pfx ++ k, c'⟩] }, .ok)
  | .real =>
    match (if b.written then reuseOut st.be else none) with
    | some o => (st, o)
    | none =>
      if st.be.batchRetains then
        (st.putBatch { b with ops := b.ops ++ [⟨del, b.pfx ++ k, c⟩] }, .ok)
      else
        let (c', st) := st.alloc c.val
        (st.putBatch { b with ops := b.ops ++ [⟨del, b.pfx ++ k, c'⟩] }, .ok)

def batchWrite (st : State) (b : Batch) : State × Out :=
  match b.kind with
  | .noop => (st, .panic "readonly")
  | .coll c =>
    let st := appendColl st c (b.ops.map (fun o => ⟨o.del, o.key, if o.del then none else some o.cell⟩))
    (st.putBatch { b with ops := [] }, .ok)
  | .real =>
    match (if b.written then reuseOut st.be else none) with
    | some o => (st, o)
    | none =>
      let st := applyOps st b.ops
      (st.putBatch { b with written := true }, .ok)

/-! ## operations -/

inductive Op
  | wrapPfx (d : Nat) (p : Bytes) (parent : Nat)
  | wrapImmut (d parent : Nat)
  | wrapSnap (d s : Nat)
  | wrapColl (d c parent : Nat)
  | drain (c d : Nat)
  | set (d : Nat) (k v : Option Bytes) (mu : Bool)
  | del (d : Nat) (k : Option Bytes)
  | get (snap : Bool) (h : Nat) (k : Option Bytes) (mu : Bool)
  | has (snap : Bool) (h : Nat) (k : Option Bytes)
  | iter (snap : Bool) (h : Nat) (asc : Bool) (s e : Option Bytes) (mu : Bool)
  | bnew (d b : Nat)
  | bset (b : Nat) (k v : Option Bytes) (mu : Bool)
  | bdel (b : Nat) (k : Option Bytes)
  | bwrite (b : Nat)
  | bclose (b : Nat)
  | snap (d s : Nat)
  | sclose (s : Nat)
  | fill (d n a c : Nat)
  deriving Repr

/-- a reader: a database handle or a snapshot handle. -/
def reader (st : State) (snap : Bool) (h : Nat) : Option Db :=
  if snap then (if (lookup st.snaps h).isSome then some (.snapdb h) else none) else lookup st.dbs h

def showItems (l : List (Bytes × Cell)) : List (Bytes × Bytes) := l.map (fun it => (it.1, it.2.val))

/-- does a value read through this handle alias the stored buffer?  memdb (and
its snapshots) always; a `CollectingDB` hit returns the collector's own buffer
on every backend. -/
def getAliases (st : State) : Db → Bytes → Bool
  | .root, _ => st.be.aliases
  | .pfx p par, k => getAliases st par (p ++ k)
  | .immut par, k => getAliases st par k
  | .snapdb _, _ => st.be.aliases
  | .coll c par, k =>
    match collGet ((lookup st.colls c).getD []) k with
    | some _ => true
    | none => getAliases st par k

def fillKey (i a c : Nat) : Bytes :=
  let x := (i * a + c) % 65536
  [UInt8.ofNat (x / 256), UInt8.ofNat (x % 256)] ++ List.replicate (i % 7) 0xaa

def fillLoop (st : State) (d : Db) (a c : Nat) : Nat → Nat → State × Out
  | 0, _ => (st, .ok)
  | n + 1, i =>
    let k := fillKey i a c
    let (cell, st) := st.alloc k
    match dbSet st d k cell with
    | (st, .ok) => fillLoop st d a c n (i + 1)
    | r => r

def usesSnap : Db → Nat → Bool
  | .root, _ => false
  | .pfx _ par, s => usesSnap par s
  | .immut par, s => usesSnap par s
  | .snapdb i, s => i == s
  | .coll _ par, s => usesSnap par s

def step (st : State) : Op → State × Out
  | .wrapPfx d p parent =>
    match lookup st.dbs parent with
    | none => (st, .err "nohandle")
    | some par => if (lookup st.dbs d).isSome then (st, .err "dup") else ({ st with dbs := st.dbs ++ [(d, .pfx p par)] }, .ok)
  | .wrapImmut d parent =>
    match lookup st.dbs parent with
    | none => (st, .err "nohandle")
    | some par => if (lookup st.dbs d).isSome then (st, .err "dup") else ({ st with dbs := st.dbs ++ [(d, .immut par)] }, .ok)
  | .wrapSnap d s =>
    match lookup st.snaps s with
    | none => (st, .err "nohandle")
    | some _ => if (lookup st.dbs d).isSome then (st, .err "dup") else ({ st with dbs := st.dbs ++ [(d, .snapdb s)] }, .ok)
  | .wrapColl d c parent =>
    match lookup st.dbs parent with
    | none => (st, .err "nohandle")
    | some par =>
      if (lookup st.dbs d).isSome then (st, .err "dup")
      else
        let colls := if (lookup st.colls c).isSome then st.colls else st.colls ++ [(c, [])]
        ({ st with dbs := st.dbs ++ [(d, .coll c par)], colls := colls }, .ok)
  | .drain c d =>
    match lookup st.colls c, lookup st.dbs d with
    | some ops, some db =>
      -- b := d.NewBatch(); c.Drain(b); b.WriteSync(); b.Close()
      let (kind, pfx) := dbBatch db
      let tmp : Batch := ⟨1000000, kind, pfx, [], false⟩
      let st := { st with batches := st.batches ++ [tmp] }
      let st := ops.foldl (fun st o =>
        match st.findBatch 1000000 with
        | none => st
        | some b =>
          match o.cell with
          | some cell => (batchStage st b o.del o.key cell).1
          | none => let (cell, st) := st.alloc []; (batchStage st b o.del o.key cell).1) st
      let st := { st with colls := replace st.colls c [] }
      match st.findBatch 1000000 with
      | none => (st, .err "nohandle")
      | some b =>
        let (st, o) := batchWrite st b
        (st.dropBatch 1000000, o)
    | _, _ => (st, .err "nohandle")
  | .set d k v mu =>
    match lookup st.dbs d with
    | none => (st, .err "nohandle")
    | some db =>
      let (cell, st) := st.alloc (v.getD [])
      let (st, o) := dbSet st db (k.getD []) cell
      (if mu then st.flip [cell.id] else st, o)
  | .del d k =>
    match lookup st.dbs d with
    | none => (st, .err "nohandle")
    | some db => dbDel st db (k.getD [])
  | .get snap h k mu =>
    match reader st snap h with
    | none => (st, .err "nohandle")
    | some db =>
      match dbGet st db (k.getD []) with
      | none => (st, .err "nohandle")
      | some none => (st, .val none)
      | some (some cell) =>
        if mu && getAliases st db (k.getD []) then
          (st.flip [cell.id], .val (some (flipBytes cell.val)))
        else (st, .val (some cell.val))
  | .has snap h k =>
    match reader st snap h with
    | none => (st, .err "nohandle")
    | some db =>
      match dbHas st db (k.getD []) with
      | none => (st, .err "nohandle")
      | some b => (st, .bool b)
  | .iter snap h asc s e mu =>
    match reader st snap h with
    | none => (st, .err "nohandle")
    | some db =>
      match dbIter st db asc s e with
      | .error o => (st, o)
      | .ok l =>
        if mu && st.be.aliases then
          let st := st.flip (l.map (fun it => it.2.id))
          match dbIter st db asc s e with
          | .error o => (st, o)
          | .ok l => (st, .items (showItems l))
        else (st, .items (showItems l))
  | .bnew d b =>
    match lookup st.dbs d with
    | none => (st, .err "nohandle")
    | some db =>
      if (st.findBatch b).isSome then (st, .err "dup")
      else
        let (kind, pfx) := dbBatch db
        ({ st with batches := st.batches ++ [⟨b, kind, pfx, [], false⟩] }, .ok)
  | .bset b k v mu =>
    match st.findBatch b with
    | none => (st, .err "nohandle")
    | some bt =>
      let (cell, st) := st.alloc (v.getD [])
      -- the caller's key slice is kept only by a backend batch used without a prefix wrapper
      let keyKept := mu && bt.kind == .real && bt.pfx == [] && st.be.batchRetains
      let key := if keyKept then flipBytes (k.getD []) else k.getD []
      let (st, o) := batchStage st bt false key cell
      (if mu then st.flip [cell.id] else st, o)
  | .bdel b k =>
    match st.findBatch b with
    | none => (st, .err "nohandle")
    | some bt =>
      let (cell, st) := st.alloc []
      batchStage st bt true (k.getD []) cell
  | .bwrite b =>
    match st.findBatch b with
    | none => (st, .err "nohandle")
    | some bt => batchWrite st bt
  | .bclose b =>
    match st.findBatch b with
    | none => (st, .err "nohandle")
    | some _ => (st.dropBatch b, .ok)
  | .snap d s =>
    match lookup st.dbs d with
    | none => (st, .err "nohandle")
    | some db =>
      if (lookup st.snaps s).isSome then (st, .err "dup")
      else
        match dbSnap st db with
        | .error o => (st, o)
        | .ok m => ({ st with snaps := st.snaps ++ [(s, m)] }, .ok)
  | .sclose s =>
    match lookup st.snaps s with
    | none => (st, .err "nohandle")
    | some _ =>
      if st.dbs.any (fun d => usesSnap d.2 s) then (st, .err "inuse")
      else ({ st with snaps := remove st.snaps s }, .ok)
  | .fill d n a c =>
    match lookup st.dbs d with
    | none => (st, .err "nohandle")
    | some db => fillLoop st db a c n 0

end GnoVerif.C29
