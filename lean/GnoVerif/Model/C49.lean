/-
Model for C49: tm2/pkg/clist/clist.go (CList + CElement), read line by line, at
the granularity of ATOMIC STEPS.

What is one atomic step
* `CList.PushBack`, `CList.Remove` run under `l.mtx` (write lock) and take the
  element mutexes inside (`SetPrev/SetNext/SetRemoved`); `DetachPrev/DetachNext`
  run under `e.mtx`.  Each of them is ONE step (`Op.push`, `.remove`, `.detachPrev`,
  `.detachNext`).
* The blocking calls are NOT one step.  `NextWait` is the loop
  `RLock; next,nextWg,removed := …; RUnlock; if next != nil || removed {return next}; nextWg.Wait()`
  — the read under the read lock is one atomic step, `nextWg.Wait()` is another
  one (enabled only once that wait group has been released), and any other
  goroutine's step may come in between.  This is exactly the window in which a
  wake-up could be lost, so the model keeps it: a traverser (`Trav`) is a small
  state machine advanced by `Op.tstep`; `wantNext e none` = about to read,
  `wantNext e (some g)` = has read `next == nil && !removed`, holds wait group
  number `g` of element `e` and is about to / blocked in `Wait()`.  `FrontWait`
  likewise with the list's wait group.
* `Next()` (non-blocking) is one step (`Op.tnextNow`).

Heap: elements are identified by their insertion index (`id`, 0,1,2,…: the n-th
`PushBack` creates element n); `elems : Nat → Elem` is the heap.

Wait groups / channels: `prevWg`+`prevWaitCh`, `nextWg`+`nextWaitCh`, `l.wg`+`l.waitCh`
are always created, released (`Done(); close()`) and replaced together, so each
pair is one flag (`…Closed`).  A replaced pair stays referenced by goroutines
that captured it, so its final state is kept in `…Stale` (oldest first); wait
group number `g` of an element is `Stale[g]` for `g < Stale.length` and the
current one for `g = Stale.length`.  `Done()` on an already released wait group
panics (`sync: negative WaitGroup counter`) — in `SetNext/SetPrev/SetRemoved/
PushBack` that happens with `l.mtx` and/or `e.mtx` still held (no defer), so the
list is dead afterwards: `poisoned`.  (Only reachable after removing an element
twice, see Props.)

Quirks kept as they are
* `Remove(e)` does not check `e.removed`: its three guards (`empty`, `false head`,
  `false tail`) look only at `l.head/l.tail` and `e.prev/e.next`; a second
  `Remove` of an element whose stale `prev`/`next` are both non-nil goes through,
  decrements `len` again (it can become negative: `Int`) and re-links the
  neighbours it remembered.
* A removed element keeps `prev`/`next` as they were when it was removed
  (until `DetachPrev/DetachNext`), so `Next()` on a removed element can return an
  element that has been removed since.
* `l.len == 1` (not `head == tail`) decides whether `Remove` re-arms the list's
  wait group; `l.len == 0` (not `head == nil`) whether `PushBack` releases it.
* `PushBack`'s `len >= maxLen` panic: `New()` sets `maxLen = MaxInt`, unreachable;
  not modelled (`newWithMax` is unexported).

Not modelled: `PrevWait/BackWait` traversers (the prev-side flags are), `Value`.
Core-only (no Mathlib).
-/
namespace GnoVerif.C49

/-- `CElement`. -/
structure Elem where
  prev : Option Nat
  next : Option Nat
  removed : Bool
  nextClosed : Bool        -- current nextWg released / nextWaitCh closed
  prevClosed : Bool        -- current prevWg released / prevWaitCh closed
  nextStale : List Bool    -- replaced next wait groups (final released-flag), oldest first
  prevStale : List Bool
  deriving Repr, DecidableEq

/-- the element literal in `PushBack`. -/
def Elem.blank : Elem :=
  { prev := none, next := none, removed := false, nextClosed := false, prevClosed := false,
    nextStale := [], prevStale := [] }

instance : Inhabited Elem := ⟨Elem.blank⟩

/-- where a traversing goroutine is. -/
inductive TState where
  | idle
  | wantFront (w : Option Nat)             -- in FrontWait: `none` = about to read, `some g` = about to Wait() on list wg g
  | at (e : Nat)                           -- holds element e (returned by FrontWait/NextWait/Next)
  | wantNext (e : Nat) (w : Option Nat)    -- in e.NextWait: `none` = about to read, `some g` = about to Wait() on e's next wg g
  | fin                                    -- NextWait returned nil
  deriving Repr, DecidableEq

structure Trav where
  st : TState
  log : List Nat           -- elements returned since the last FrontWait began, oldest first
  deriving Repr, DecidableEq

def Trav.idle : Trav := { st := .idle, log := [] }

/-- `CList` + heap + traversers. -/
structure State where
  size : Nat               -- number of elements ever created (ids 0 … size-1)
  elems : Nat → Elem
  head : Option Nat
  tail : Option Nat
  len : Int
  closed : Bool            -- l.wg released / l.waitCh closed
  stale : List Bool        -- replaced list wait groups
  travs : Nat → Trav
  poisoned : Bool          -- a panic left l.mtx / e.mtx locked

/-- `New()` / `Init()`. -/
def init : State :=
  { size := 0, elems := fun _ => Elem.blank, head := none, tail := none, len := 0,
    closed := false, stale := [], travs := fun _ => Trav.idle, poisoned := false }

def State.setElem (s : State) (i : Nat) (e : Elem) : State :=
  { s with elems := fun j => if j = i then e else s.elems j }

def State.setTrav (s : State) (t : Nat) (tr : Trav) : State :=
  { s with travs := fun j => if j = t then tr else s.travs j }

/-- is wait group number `g` (of a pair with history `stale` and current flag `closed`) released? -/
def released (stale : List Bool) (closed : Bool) (g : Nat) : Bool :=
  if g < stale.length then stale[g]?.getD false else (g == stale.length && closed)

/-! ### CElement setters (`none` = `Done()` on a released wait group: panic with mutexes held) -/

/-- `x.SetNext(nn)`. -/
def setNext (s : State) (x : Nat) (nn : Option Nat) : Option State :=
  let el := s.elems x
  match el.next, nn with
  | some _, none =>      -- oldNext != nil && newNext == nil: fresh wait group and channel
    some (s.setElem x { el with next := none, nextStale := el.nextStale ++ [el.nextClosed], nextClosed := false })
  | none, some n =>      -- oldNext == nil && newNext != nil: Done(); close()
    if el.nextClosed then none
    else some (s.setElem x { el with next := some n, nextClosed := true })
  | _, _ => some (s.setElem x { el with next := nn })

/-- `x.SetPrev(np)`. -/
def setPrev (s : State) (x : Nat) (np : Option Nat) : Option State :=
  let el := s.elems x
  match el.prev, np with
  | some _, none =>
    some (s.setElem x { el with prev := none, prevStale := el.prevStale ++ [el.prevClosed], prevClosed := false })
  | none, some p =>
    if el.prevClosed then none
    else some (s.setElem x { el with prev := some p, prevClosed := true })
  | _, _ => some (s.setElem x { el with prev := np })

/-- `e.SetRemoved()`. -/
def setRemoved (s : State) (e : Nat) : Option State := do
  let el := { s.elems e with removed := true }
  let el ← (if el.prev.isNone then (if el.prevClosed then none else some { el with prevClosed := true })
            else some el)
  let el ← (if el.next.isNone then (if el.nextClosed then none else some { el with nextClosed := true })
            else some el)
  some (s.setElem e el)

/-! ### CList methods -/

/-- `PushBack` after taking the lock; `none` = `l.wg.Done()` / `SetNext` panicked. -/
def pushCore (s : State) : Option State := do
  let e := s.size
  let s := s.setElem e Elem.blank
  -- if l.len == 0 { l.wg.Done(); close(l.waitCh) };  l.len++
  if s.len = 0 ∧ s.closed = true then none else
  let s := { s with closed := if s.len = 0 then true else s.closed, len := s.len + 1 }
  let s ← (match s.tail with
    | none => some { s with head := some e, tail := some e }
    | some t => do
      let s ← setPrev s e (some t)
      let s ← setNext s t (some e)
      some { s with tail := some e })
  some { s with size := s.size + 1 }

/-- the part of `Remove(e)` after the three guards. -/
def removeCore (s : State) (e : Nat) : Option State := do
  let prev := (s.elems e).prev
  let next := (s.elems e).next
  -- if l.len == 1 { l.wg = waitGroup1(); l.waitCh = make(chan struct{}) };  l.len--
  let s := { s with closed := if s.len = 1 then false else s.closed,
                    stale := if s.len = 1 then s.stale ++ [s.closed] else s.stale,
                    len := s.len - 1 }
  let s ← (match prev with
    | none => some { s with head := next }
    | some p => setNext s p next)
  let s ← (match next with
    | none => some { s with tail := prev }
    | some n => setPrev s n prev)
  setRemoved s e

inductive Res where
  | ok
  | pushed (id : Nat)
  | panicEmpty | panicFalseHead | panicFalseTail    -- Remove's guards (locks released)
  | panicNotRemoved                                 -- DetachPrev/DetachNext on a live element (lock released)
  | panicWg                                         -- negative WaitGroup counter, locks still held
  | next (r : Option Nat)                           -- result of Next()
  | busy                                            -- traverser already has a call pending
  | notAt                                           -- traverser holds no element
  | badop
  | poisoned
  deriving Repr, DecidableEq

inductive Op where
  | push
  | remove (e : Nat)
  | detachPrev (e : Nat)
  | detachNext (e : Nat)
  | tfront (t : Nat)       -- traverser t calls FrontWait (starts a new traversal)
  | tnext (t : Nat)        -- traverser t calls NextWait on the element it holds
  | tnextNow (t : Nat)     -- traverser t calls Next() on the element it holds
  | tstep (t : Nat)        -- one atomic step of traverser t's pending blocking call
  deriving Repr, DecidableEq

def poison (s : State) : State × Res := ({ s with poisoned := true }, .panicWg)

/-- one atomic step of traverser `t`'s pending call. -/
def tstep (s : State) (t : Nat) : State :=
  let tr := s.travs t
  match tr.st with
  | .wantFront none =>
    match s.head with
    | some h => s.setTrav t { st := .at h, log := [h] }
    | none => s.setTrav t { tr with st := .wantFront (some s.stale.length) }
  | .wantFront (some g) =>
    if released s.stale s.closed g then s.setTrav t { tr with st := .wantFront none } else s
  | .wantNext e none =>
    let el := s.elems e
    if el.next.isSome || el.removed then
      match el.next with
      | some n => s.setTrav t { st := .at n, log := tr.log ++ [n] }
      | none => s.setTrav t { tr with st := .fin }
    else s.setTrav t { tr with st := .wantNext e (some el.nextStale.length) }
  | .wantNext e (some g) =>
    let el := s.elems e
    if released el.nextStale el.nextClosed g then s.setTrav t { tr with st := .wantNext e none } else s
  | _ => s

def pending : TState → Bool
  | .wantFront _ => true
  | .wantNext _ _ => true
  | _ => false

def stepR (s : State) (op : Op) : State × Res :=
  if s.poisoned then (s, .poisoned) else
  match op with
  | .push =>
    match pushCore s with
    | some s' => (s', .pushed s.size)
    | none => poison s
  | .remove e =>
    if e ≥ s.size then (s, .badop) else
    let el := s.elems e
    if s.head.isNone || s.tail.isNone then (s, .panicEmpty)
    else if el.prev.isNone && s.head != some e then (s, .panicFalseHead)
    else if el.next.isNone && s.tail != some e then (s, .panicFalseTail)
    else match removeCore s e with
      | some s' => (s', .ok)
      | none => poison s
  | .detachPrev e =>
    if e ≥ s.size then (s, .badop) else
    let el := s.elems e
    if !el.removed then (s, .panicNotRemoved) else (s.setElem e { el with prev := none }, .ok)
  | .detachNext e =>
    if e ≥ s.size then (s, .badop) else
    let el := s.elems e
    if !el.removed then (s, .panicNotRemoved) else (s.setElem e { el with next := none }, .ok)
  | .tfront t =>
    if pending (s.travs t).st then (s, .busy)
    else (s.setTrav t { st := .wantFront none, log := [] }, .ok)
  | .tnext t =>
    let tr := s.travs t
    match tr.st with
    | .at e => (s.setTrav t { tr with st := .wantNext e none }, .ok)
    | st => if pending st then (s, .busy) else (s, .notAt)
  | .tnextNow t =>
    let tr := s.travs t
    match tr.st with
    | .at e =>
      match (s.elems e).next with
      | some n => (s.setTrav t { st := .at n, log := tr.log ++ [n] }, .next (some n))
      | none => (s, .next none)
    | st => if pending st then (s, .busy) else (s, .notAt)
  | .tstep t => (tstep s t, .ok)

def step (s : State) (op : Op) : State := (stepR s op).1

def run (s : State) : List Op → State
  | [] => s
  | op :: ops => run (step s op) ops

end GnoVerif.C49
