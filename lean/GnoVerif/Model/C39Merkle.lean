/-
C39 — minimal simple-Merkle-tree model (tm2/pkg/crypto/merkle), parametric in
the hash `H : Bytes → Bytes`.  Only what `types.PartSet` uses:

  simple_tree.go   getSplitPoint
  hash.go          leafHash  = H(0x00 ‖ leaf),  innerHash = H(0x01 ‖ l ‖ r)
  simple_proof.go  SimpleProofsFromByteSlices (trailsFromByteSlices + FlattenAunts),
                   SimpleProof.Verify, computeHashFromAunts, SimpleProof.ValidateBasic

(The C25 builder owns the full `Model/C25*`; these definitions are deliberately
self-contained so the two properties do not block each other.)

Go `[]byte` is `List UInt8`.  `nil` and the empty slice are identified, which is
what `bytes.Equal` does; the ONE place where Go distinguishes them —
`computeHashFromAunts` returning `nil` for "malformed", tested by `Verify` — is an `Option`.
Core-only.
-/
namespace GnoVerif.C39

abbrev Bytes := List UInt8

variable (H : Bytes → Bytes)

/-- `leafHash`: tmhash(0x00 ‖ leaf). -/
def leafHash (leaf : Bytes) : Bytes := H (0 :: leaf)

/-- `innerHash`: tmhash(0x01 ‖ left ‖ right). -/
def innerHash (l r : Bytes) : Bytes := H (1 :: (l ++ r))

/-- `getSplitPoint(length)` for `length ≥ 1`: `k := 1 << (bits.Len(length)-1)`
(= `2 ^ log2 length`), and `k >>= 1` if `k == length`.  (Go panics for
`length < 1`; never called so.) -/
def splitPoint (n : Nat) : Nat :=
  let k := 2 ^ Nat.log2 n
  if k = n then k / 2 else k

theorem splitPoint_lt {n : Nat} (h : 2 ≤ n) : splitPoint n < n := by
  have h1 : 2 ^ Nat.log2 n ≤ n := Nat.log2_self_le (by omega)
  unfold splitPoint
  simp only
  split <;> omega

theorem splitPoint_pos {n : Nat} (h : 2 ≤ n) : 0 < splitPoint n := by
  have h1 : 2 ^ Nat.log2 n ≤ n := Nat.log2_self_le (by omega)
  have h2 : 0 < 2 ^ Nat.log2 n := Nat.two_pow_pos _
  unfold splitPoint
  simp only
  split <;> omega

/-- `SimpleHashFromByteSlices` (recursive): `[]` for no items (Go: nil). -/
def treeRoot : List Bytes → Bytes
  | [] => []
  | [x] => leafHash H x
  | x :: y :: rest =>
    let items := x :: y :: rest
    let k := splitPoint items.length
    innerHash H (treeRoot (items.take k)) (treeRoot (items.drop k))
termination_by items => items.length
decreasing_by
  all_goals simp only [List.length_take, List.length_drop, List.length_cons]
  · have := splitPoint_lt (n := rest.length + 1 + 1) (by omega); omega
  · have := splitPoint_pos (n := rest.length + 1 + 1) (by omega); omega

/-- `trailsFromByteSlices` followed by `FlattenAunts` on every trail:
the root hash and, for every leaf, its aunts ordered from the leaf's sibling up
to the root's child.  (For no items Go returns a nil root NODE, which
`SimpleProofsFromByteSlices` then dereferences — see `proofsFromByteSlices`.) -/
def proofsAux : List Bytes → Bytes × List (List Bytes)
  | [] => ([], [])
  | [x] => (leafHash H x, [[]])
  | x :: y :: rest =>
    let items := x :: y :: rest
    let k := splitPoint items.length
    let l := proofsAux (items.take k)
    let r := proofsAux (items.drop k)
    (innerHash H l.1 r.1, l.2.map (· ++ [r.1]) ++ r.2.map (· ++ [l.1]))
termination_by items => items.length
decreasing_by
  all_goals simp only [List.length_take, List.length_drop, List.length_cons]
  · have := splitPoint_lt (n := rest.length + 1 + 1) (by omega); omega
  · have := splitPoint_pos (n := rest.length + 1 + 1) (by omega); omega

/-- `merkle.SimpleProof`. `total`/`index` are Go `int`s (may be negative on the wire). -/
structure Proof where
  total    : Int
  index    : Int
  leafHash : Bytes
  aunts    : List Bytes
deriving DecidableEq, Repr, Inhabited

/-- `SimpleProofsFromByteSlices`: `none` = the nil-pointer panic on zero items. -/
def proofsFromByteSlices (items : List Bytes) : Option (Bytes × List Proof) :=
  if items.isEmpty then none else
  let r := proofsAux H items
  some (r.1, (List.range items.length).map fun (i : Nat) =>
    { total := (items.length : Int), index := (i : Int), leafHash := leafHash H (items.getD i []),
      aunts := r.2.getD i [] })

/-- `computeHashFromAunts(index, total, leafHash, innerHashes)` with the aunts
list REVERSED (Go peels the LAST aunt at every level; reversing makes the
recursion structural).  `none` is Go's `nil` result. -/
def computeRev : Nat → Nat → Bytes → List Bytes → Option Bytes
  | index, total, leaf, [] =>
    if index ≥ total ∨ total = 0 then none
    else if total = 1 then some leaf       -- case 1, len(innerHashes) == 0
    else none                               -- default, len(innerHashes) == 0 → nil
  | index, total, leaf, a :: rest =>
    if index ≥ total ∨ total = 0 then none
    else if total = 1 then none            -- case 1, len(innerHashes) != 0 → nil
    else
      let k := splitPoint total
      if index < k then
        match computeRev index k leaf rest with
        | none => none
        | some l => some (innerHash H l a)
      else
        match computeRev (index - k) (total - k) leaf rest with
        | none => none
        | some r => some (innerHash H a r)

/-- `computeHashFromAunts` in Go argument order. -/
def computeHashFromAunts (index total : Nat) (leaf : Bytes) (aunts : List Bytes) : Option Bytes :=
  computeRev H index total leaf aunts.reverse

/-- `computedHash != nil && bytes.Equal(computedHash, rootHash)`.
(Until /repo commit 96b4d2262f the nil check was missing and `bytes.Equal(nil, r)` held for an
empty `r`: a header with an empty hash accepted malformed proofs.  The correspondence run of this
property flagged the change of behaviour when that fix landed; the model follows the code.) -/
def rootMatches (computed : Option Bytes) (root : Bytes) : Bool :=
  match computed with
  | none => false
  | some h => h == root

/-- `(*SimpleProof).Verify(rootHash, leaf) == nil`, with the checks in source order. -/
def Proof.verify (sp : Proof) (root leaf : Bytes) : Bool :=
  if sp.total < 0 then false
  else if sp.index < 0 then false
  else if sp.leafHash ≠ GnoVerif.C39.leafHash H leaf then false
  else rootMatches (computeHashFromAunts H sp.index.toNat sp.total.toNat sp.leafHash sp.aunts) root

/-- "The proof matches the header", stated directly: the aunts have exactly the shape of a
path in a `total`-leaf tree and hash up to `root` (`Props/C39.lean`: `verify = verifyStrict`). -/
def Proof.verifyStrict (sp : Proof) (root leaf : Bytes) : Bool :=
  decide (0 ≤ sp.total) && decide (0 ≤ sp.index) && decide (sp.leafHash = GnoVerif.C39.leafHash H leaf) &&
  (computeHashFromAunts H sp.index.toNat sp.total.toNat sp.leafHash sp.aunts == some root)

/-- `(*SimpleProof).ValidateBasic() == nil` (`tmhash.Size = 32`, `maxAunts = 100`). -/
def Proof.validateBasic (sp : Proof) : Bool :=
  decide (0 ≤ sp.total) && decide (0 ≤ sp.index) && decide (sp.leafHash.length = 32) &&
  decide (sp.aunts.length ≤ 100) && sp.aunts.all (fun a => decide (a.length = 32))

end GnoVerif.C39
