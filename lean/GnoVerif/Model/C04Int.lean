import GnoVerif.Base.GoInt
/-!
C04 — "MiniGo" scalar layer: Go's fixed-width integer types and the operators
of `gnovm/pkg/gnolang/op_binary.go` / `op_unary.go` / `values_conversions.go`
on them.

A Go integer value is kept as the mathematical integer it denotes together
with its type (`ITy`); every operation is *computed on `BitVec w`* (through
`Base/GoInt.lean`) and read back with `GoInt.toInt`, so the theorems of
`Props/C04.lean` ("= integers mod 2^w", truncated division, shifts,
conversions) are statements about bit-vector arithmetic, not definitions.

Mirrored quirks of the GnoVM (all agree with the Go spec):
* `quoAssign`/`remAssign`: a zero divisor raises the run-time panic
  "division by zero"; `MinInt / -1` wraps (Go evaluates `lv.GetInt8() / rv.GetInt8()`).
* `shlAssign`/`shrAssign`: the count is first converted to `uint`
  (preprocess.go:1421-1437 wraps it in `uint(...)` marked ATTR_SHIFT_RHS and
  op_call's conversion panics "negative shift amount" when the signed source
  is negative); then Go's `<<`/`>>` on the host type: counts ≥ width give 0
  (or the sign fill for signed `>>`).
* conversions between integer types truncate / sign-extend (ConvertTo).

Core-only.
-/
namespace GnoVerif.C04
open GnoVerif

/-- Go's ten integer types (`byte` = `u8`, `rune` = `i32`). -/
inductive ITy | i8 | i16 | i32 | i64 | int | u8 | u16 | u32 | u64 | uint
  deriving DecidableEq, Repr, Inhabited

def ITy.width : ITy → Nat
  | .i8 | .u8 => 8 | .i16 | .u16 => 16 | .i32 | .u32 => 32
  | .i64 | .u64 | .int | .uint => 64

def ITy.signed : ITy → Bool
  | .i8 | .i16 | .i32 | .i64 | .int => true
  | _ => false

def ITy.name : ITy → String
  | .i8 => "i8" | .i16 => "i16" | .i32 => "i32" | .i64 => "i64" | .int => "int"
  | .u8 => "u8" | .u16 => "u16" | .u32 => "u32" | .u64 => "u64" | .uint => "uint"

def ITy.ofName : String → Option ITy
  | "i8" => some .i8 | "i16" => some .i16 | "i32" => some .i32 | "i64" => some .i64 | "int" => some .int
  | "u8" => some .u8 | "u16" => some .u16 | "u32" => some .u32 | "u64" => some .u64 | "uint" => some .uint
  | _ => none

theorem ITy.width_pos (t : ITy) : 0 < t.width := by cases t <;> decide

/-- the bit pattern of a value of type `t` -/
abbrev bits (t : ITy) (v : Int) : BitVec t.width := BitVec.ofInt t.width v
/-- the integer a bit pattern of type `t` denotes -/
abbrev unbits (t : ITy) (x : BitVec t.width) : Int := GoInt.toInt t.signed x

def ITy.min (t : ITy) : Int := GoInt.minVal t.width t.signed
def ITy.max (t : ITy) : Int := GoInt.maxVal t.width t.signed
def ITy.inRange (t : ITy) (v : Int) : Bool := decide (t.min ≤ v ∧ v ≤ t.max)

/-- normalise an arbitrary integer into the type (wrap-around) -/
def wrap (t : ITy) (v : Int) : Int := unbits t (bits t v)

/-- run-time panic classes (canonical tokens of the line protocol) -/
inductive RtErr
  | divzero | negshift | index | slice | nilderef | nilmap | typeassert | makeslice | nilfunc | uncomparable
  deriving DecidableEq, Repr, Inhabited

def RtErr.name : RtErr → String
  | .divzero => "divzero" | .negshift => "negshift" | .index => "bounds" | .slice => "bounds"
  | .nilderef => "nilderef" | .nilmap => "nilmap" | .typeassert => "typeassert"
  | .makeslice => "makeslice" | .nilfunc => "nilderef" | .uncomparable => "uncomparable"

inductive ArOp | add | sub | mul | quo | rem | and | or | xor | andnot
  deriving DecidableEq, Repr, Inhabited
inductive CmpOp | eq | ne | lt | le | gt | ge
  deriving DecidableEq, Repr, Inhabited

/-- `a op b` at type `t` (both operands already of that type). -/
def arith (t : ITy) (op : ArOp) (a b : Int) : Except RtErr Int :=
  let x := bits t a
  let y := bits t b
  match op with
  | .add => .ok (unbits t (x + y))
  | .sub => .ok (unbits t (x - y))
  | .mul => .ok (unbits t (x * y))
  | .quo => match GoInt.div t.signed x y with
    | .ok r => .ok (unbits t r) | .error _ => .error .divzero
  | .rem => match GoInt.rem t.signed x y with
    | .ok r => .ok (unbits t r) | .error _ => .error .divzero
  | .and => .ok (unbits t (x &&& y))
  | .or => .ok (unbits t (x ||| y))
  | .xor => .ok (unbits t (x ^^^ y))
  | .andnot => .ok (unbits t (x &&& ~~~y))

def cmpInt (t : ITy) (op : CmpOp) (a b : Int) : Bool :=
  let x := bits t a
  let y := bits t b
  match op with
  | .eq => x == y
  | .ne => x != y
  | .lt => GoInt.lt t.signed x y
  | .le => GoInt.le t.signed x y
  | .gt => GoInt.gt t.signed x y
  | .ge => GoInt.ge t.signed x y

/-- `x << n` / `x >> n`: `x : t`, count `n : tn`.  A negative signed count panics
(the `uint(n)` conversion inserted by the preprocessor); otherwise the count is
taken as a natural number. -/
def shift (t : ITy) (left : Bool) (x : Int) (tn : ITy) (n : Int) : Except RtErr Int :=
  if tn.signed && decide (n < 0) then .error .negshift
  else
    -- the count after `uint(n)`, clamped to the width: shifting a `w`-bit
    -- vector by `w` or by more gives the same result (`shift_clamp` in Proofs)
    let c : BitVec 64 := BitVec.ofNat 64 (min (BitVec.ofInt 64 n).toNat t.width)
    let xb := bits t x
    if left then .ok (unbits t (GoInt.shl t.signed false xb c))
    else .ok (unbits t (GoInt.shr t.signed false xb c))

inductive UnOp | neg | compl | pos | not
  deriving DecidableEq, Repr, Inhabited

def unInt (t : ITy) (op : UnOp) (a : Int) : Int :=
  let x := bits t a
  match op with
  | .neg => unbits t (-x)
  | .compl => unbits t (~~~x)
  | _ => a

/-- integer conversion `T(x)`, `x : s` -/
def convInt (s t : ITy) (a : Int) : Int :=
  unbits t (GoInt.conv s.signed t.width (bits s a))

end GnoVerif.C04
