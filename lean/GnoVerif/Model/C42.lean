/-
Model.C42 — tm2/pkg/p2p/conn/secret_connection.go as coded, over ABSTRACT
cryptography.

* `AEAD` (chacha20poly1305 with nil associated data) and `Prims` (X25519 base
  mult / DH, HKDF, ed25519 public key / sign / verify) are structures of plain
  functions.  Their laws are hypotheses of the theorems in `Props/C42.lean`,
  never axioms; the driver instantiates `AEAD` with the executable
  ChaCha20-Poly1305 model of `Model/C47Cipher.lean` and `Prims` with tables of
  values computed by golang.org/x/crypto (given on the op line and re-derived
  independently by the harness).
* The underlying `io.ReadWriteCloser` is a byte queue: `Read` returns what is
  there (io.EOF when empty), `Write` appends and never fails.
* `incrNonce`, `Write` (1024-byte chunks, 4-byte little-endian length prefix inside
  the 1028-byte frame, one AEAD seal per frame, nonce incremented after every
  seal, panic on counter wrap BEFORE the frame reaches the connection), `Read`
  (buffered remainder first; else one 1044-byte sealed frame: io.ReadFull, Open —
  on failure the nonce is NOT advanced —, incrNonce, length check, copy, remainder
  to recvBuffer), `amino.UnmarshalSizedReader` over such a reader, and
  `MakeSecretConnection` (ephemeral key exchange, low-order blacklist, sort32 /
  locIsLeast, key split, challenge signature, auth-sig exchange over the fresh
  connection, verification) are mirrored statement by statement.
* The frame padding behind a short chunk is zero: `Write` clears it
  (`clear(frame[dataLenSize+chunkLength:])`).  Until /repo commit 90b41c9888 the
  pooled buffer was sent as it was — stale plaintext of earlier frames, also of
  OTHER connections (known_findings/C42.json, corpus/C42/padding.ops).

Constants come from `Gen/C42.lean` (regenerated from the source on every run).
-/
import GnoVerif.Gen.C42

namespace GnoVerif.C42

abbrev Bytes := List UInt8

/-! ### constants -/

def dataLenSize : Nat := Gen.C42.dataLenSize.toNat
def dataMaxSize : Nat := Gen.C42.dataMaxSize.toNat
def totalFrameSize : Nat := Gen.C42.totalFrameSize.toNat
def aeadSizeOverhead : Nat := Gen.C42.aeadSizeOverhead.toNat
/-- `aeadSizeOverhead + totalFrameSize`: what `Write` puts on and `Read` takes off the wire -/
def sealedFrameSize : Nat := aeadSizeOverhead + totalFrameSize

/-! ### little-endian integers -/

/-- `n` little-endian bytes of `x` (truncating) -/
def leBytes : Nat → Nat → Bytes
  | 0, _ => []
  | n+1, x => UInt8.ofNat (x % 256) :: leBytes n (x / 256)

/-- little-endian value of a byte string -/
def leNat : Bytes → Nat
  | [] => 0
  | b :: bs => b.toNat + 256 * leNat bs

/-! ### abstract cryptography -/

/-- AEAD with nil associated data: `doSeal key nonce plaintext`, `doOpen key nonce sealed` -/
structure AEAD where
  doSeal : Bytes → Bytes → Bytes → Bytes
  doOpen : Bytes → Bytes → Bytes → Option Bytes

/-- handshake primitives -/
structure Prims where
  /-- curve25519 public key of an ephemeral private key (`box.GenerateKey`) -/
  ephPub : Bytes → Bytes
  /-- `curve25519.X25519(priv, pub)`; `none` = error (all-zero output, low-order point) -/
  dh : Bytes → Bytes → Option Bytes
  /-- HKDF-SHA256 of the shared secret with the fixed info string: 96 bytes -/
  kdf : Bytes → Bytes
  /-- ed25519 public key of a private key -/
  pubKey : Bytes → Bytes
  sign : Bytes → Bytes → Bytes
  /-- `pub.VerifyBytes(msg, sig)` -/
  verify : Bytes → Bytes → Bytes → Bool

/-! ### nonces -/

/-- the nonce whose 64-bit counter (bytes 4..12, little-endian) is `c`; bytes 0..4 stay zero -/
def nonceOf (c : Nat) : Bytes := [0, 0, 0, 0] ++ leBytes 8 c

def maxUint64 : Nat := 2^64 - 1

/-- `incrNonce`: `none` = panic("can't increase nonce without overflow") -/
def incrNonce (nonce : Bytes) : Option Bytes :=
  let counter := leNat ((nonce.drop 4).take 8)
  if counter = maxUint64 then none
  else some (nonce.take 4 ++ leBytes 8 (counter + 1))

/-! ### the connection state -/

structure SC where
  sendKey : Bytes
  recvKey : Bytes
  sendNonce : Bytes
  recvNonce : Bytes
  recvBuffer : Bytes
  remPubKey : Bytes
  deriving Repr, DecidableEq

/-! ### Write -/

/-- the successive `chunk`s of the `for 0 < len(data)` loop -/
def chunksOf (data : Bytes) : List Bytes :=
  if data = [] then [] else data.take dataMaxSize :: chunksOf (data.drop dataMaxSize)
termination_by data.length
decreasing_by
  simp only [List.length_drop]
  have : data.length ≠ 0 := by
    intro h; exact ‹¬ data = []› (List.eq_nil_of_length_eq_zero h)
  have : 0 < dataMaxSize := by decide
  omega

/-- `frame`: 4-byte little-endian chunk length, the chunk, zero padding up to 1028 bytes -/
def mkFrame (chunk : Bytes) : Bytes :=
  leBytes dataLenSize chunk.length ++ chunk ++ List.replicate (dataMaxSize - chunk.length) 0

structure WriteOut where
  sc : SC
  /-- bytes handed to `conn.Write`, in order -/
  wire : Bytes
  /-- the returned `n` -/
  n : Nat
  /-- `incrNonce` panicked (the frame sealed under the last counter value is not written) -/
  panicked : Bool
  deriving Repr, DecidableEq

def writeFrames (A : AEAD) : List Bytes → SC → Bytes → Nat → WriteOut
  | [], sc, wire, n => ⟨sc, wire, n, false⟩
  | chunk :: rest, sc, wire, n =>
    let sealed := A.doSeal sc.sendKey sc.sendNonce (mkFrame chunk)
    match incrNonce sc.sendNonce with
    | none => ⟨sc, wire, n, true⟩
    | some nn => writeFrames A rest { sc with sendNonce := nn } (wire ++ sealed) (n + chunk.length)

/-- `(*SecretConnection).Write(data)` -/
def write (A : AEAD) (sc : SC) (data : Bytes) : WriteOut :=
  writeFrames A (chunksOf data) sc [] 0

/-! ### Read -/

inductive ReadErr where
  /-- io.EOF from io.ReadFull (nothing was there) -/
  | eof
  /-- io.ErrUnexpectedEOF (a partial frame; it is consumed) -/
  | short
  /-- "failed to decrypt SecretConnection" -/
  | decrypt
  /-- "chunkLength is greater than dataMaxSize" -/
  | tooLong
  /-- incrNonce panicked -/
  | panicNonce
  deriving Repr, DecidableEq

structure ReadOut where
  sc : SC
  /-- what is left in the connection's queue -/
  conn : Bytes
  /-- the `n` bytes copied into the caller's buffer -/
  data : Bytes
  err : Option ReadErr
  deriving Repr, DecidableEq

/-- `(*SecretConnection).Read(data)` with `len(data) = size`; `conn` = bytes in flight -/
def read (A : AEAD) (sc : SC) (conn : Bytes) (size : Nat) : ReadOut :=
  if sc.recvBuffer ≠ [] then
    let n := min size sc.recvBuffer.length
    ⟨{ sc with recvBuffer := sc.recvBuffer.drop n }, conn, sc.recvBuffer.take n, none⟩
  else if conn = [] then ⟨sc, conn, [], some .eof⟩
  else if conn.length < sealedFrameSize then ⟨sc, [], [], some .short⟩
  else
    let sealed := conn.take sealedFrameSize
    let rest := conn.drop sealedFrameSize
    match A.doOpen sc.recvKey sc.recvNonce sealed with
    | none => ⟨sc, rest, [], some .decrypt⟩
    | some frame =>
      match incrNonce sc.recvNonce with
      | none => ⟨sc, rest, [], some .panicNonce⟩
      | some nn =>
        let sc := { sc with recvNonce := nn }
        let chunkLength := leNat (frame.take dataLenSize)
        if chunkLength > dataMaxSize then ⟨sc, rest, [], some .tooLong⟩
        else
          let chunk := (frame.drop dataLenSize).take chunkLength
          let n := min size chunk.length
          ⟨{ sc with recvBuffer := if n < chunk.length then chunk.drop n else sc.recvBuffer },
            rest, chunk.take n, none⟩

/-- a sequence of `Read` calls with the given buffer sizes; stops at the first error.
    Returns the final state, what is left in flight, every returned slice, and the error. -/
def readMany (A : AEAD) : SC → Bytes → List Nat → SC × Bytes × List Bytes × Option ReadErr
  | sc, conn, [] => (sc, conn, [], none)
  | sc, conn, size :: rest =>
    let r := read A sc conn size
    match r.err with
    | some e => (r.sc, r.conn, [], some e)
    | none =>
      let (sc', conn', ds, e) := readMany A r.sc r.conn rest
      (sc', conn', r.data :: ds, e)

/-- a sequence of `Write` calls; stops at a panic -/
def writeMany (A : AEAD) : SC → List Bytes → SC × Bytes × Bool
  | sc, [] => (sc, [], false)
  | sc, data :: rest =>
    let w := write A sc data
    if w.panicked then (w.sc, w.wire, true)
    else
      let (sc', wire', p) := writeMany A w.sc rest
      (sc', w.wire ++ wire', p)

/-! ### length-prefixed amino messages read through an `io.Reader` -/

/-- Reader over the raw queue (`conn.Read(p)` with `len(p) = size`) -/
def rawRead (conn : Bytes) (size : Nat) : Bytes × Bytes × Option ReadErr :=
  if conn = [] then (conn, [], some .eof) else (conn.drop size, conn.take size, none)

/-- a reader state is either the raw queue or a SecretConnection over it -/
structure Rd where
  sc : Option SC
  conn : Bytes

def Rd.read (A : AEAD) (r : Rd) (size : Nat) : Rd × Bytes × Option ReadErr :=
  match r.sc with
  | none =>
    let (c, d, e) := rawRead r.conn size
    (⟨none, c⟩, d, e)
  | some sc =>
    let o := C42.read A sc r.conn size
    (⟨some o.sc, o.conn⟩, o.data, o.err)

/-- `io.ReadFull(r, buf)` with `len(buf) = want`: loops until `want` bytes or an error;
    EOF after some bytes becomes ErrUnexpectedEOF (`short`). -/
def readFull (A : AEAD) : Nat → Rd → Nat → Bytes → Rd × Bytes × Option ReadErr
  | 0, r, _, acc => (r, acc, some .short)
  | fuel+1, r, want, acc =>
    if acc.length ≥ want then (r, acc, none)
    else
      let (r', d, e) := r.read A (want - acc.length)
      let acc' := acc ++ d
      match e with
      | some .eof => if acc'.length ≥ want then (r', acc', none)
                     else (r', acc', some (if acc'.length = 0 then .eof else .short))
      | some e => if acc'.length ≥ want then (r', acc', none) else (r', acc', some e)
      | none => readFull A fuel r' want acc'

/-- `binary.Uvarint(buf[:])` on the (at most ten) bytes read; overflow gives 0 -/
def uvarint : Bytes → Nat → Nat → Nat → Nat
  | [], _, _, _ => 0
  | b :: bs, i, x, s =>
    if i = 10 then 0
    else if b < 0x80 then
      if i = 9 ∧ b > 1 then 0 else x ||| (b.toNat <<< s)
    else uvarint bs (i+1) (x ||| ((b.toNat &&& 0x7f) <<< s)) (s+7)

/-- the length-prefix loop of `UnmarshalSizedReader`: up to ten one-byte reads; a read
    that returns 0 bytes and no error leaves the zero byte of `buf` in place -/
def readPrefix (A : AEAD) : Nat → Rd → Bytes → Rd × Bytes × Option ReadErr
  | 0, r, acc => (r, acc, none)
  | fuel+1, r, acc =>
    let (r', d, e) := r.read A 1
    match e with
    | some e => (r', acc, some e)
    | none =>
      let b := d.getD 0 0
      let acc' := acc ++ [b]
      if b &&& 0x80 = 0 then (r', acc', none) else readPrefix A fuel r' acc'

inductive SizedErr where
  | read (e : ReadErr)
  /-- "read overflow, maxSize is …" -/
  | overflow
  deriving Repr, DecidableEq

def maxMsgSize : Nat := 1024 * 1024

/-- `amino.UnmarshalSizedReader(r, ptr, 1024*1024)` up to (not including) the decoding
    of the body: returns the body bytes -/
def readSized (A : AEAD) (r : Rd) : Rd × Except SizedErr Bytes :=
  let (r1, pre, e) := readPrefix A 10 r []
  match e with
  | some e => (r1, .error (.read e))
  | none =>
    let u := uvarint (pre ++ List.replicate (10 - pre.length) 0) 0 0 0
    if maxMsgSize < u then (r1, .error .overflow)
    else if maxMsgSize - pre.length < u then (r1, .error .overflow)
    else
      let (r2, body, e) := readFull A (r1.conn.length + u + 2) r1 u []
      match e with
      | some e => (r2, .error (.read e))
      | none => (r2, .ok body)

/-! ### the two handshake messages (amino, canonical form) -/

def uvarintEnc (n : Nat) : Bytes :=
  if n < 128 then [UInt8.ofNat n] else UInt8.ofNat (n % 128 + 128) :: uvarintEnc (n / 128)
termination_by n
decreasing_by omega

/-- `amino.MarshalSized(&[32]byte)`: size, field 1 (bytes) -/
def encEph (pub : Bytes) : Bytes :=
  let body := [0x0a] ++ uvarintEnc pub.length ++ pub
  uvarintEnc body.length ++ body

/-- strict inverse of the body of `encEph` for a 32-byte key -/
def decEphBody (body : Bytes) : Option Bytes :=
  match body with
  | 0x0a :: 0x20 :: rest => if rest.length = 32 then some rest else none
  | _ => none

/-- `amino.MarshalSized(authSigMessage{Key, Sig})` -/
def encAuth (key sig : Bytes) : Bytes :=
  let body := [0x0a] ++ uvarintEnc key.length ++ key ++ [0x12] ++ uvarintEnc sig.length ++ sig
  uvarintEnc body.length ++ body

/-- strict inverse of the body of `encAuth` for a 32-byte key and a signature of < 128 bytes -/
def decAuthBody (body : Bytes) : Option (Bytes × Bytes) :=
  match body with
  | 0x0a :: 0x20 :: rest =>
    let key := rest.take 32
    match rest.drop 32 with
    | 0x12 :: l :: sig =>
      if key.length = 32 ∧ l < 0x80 ∧ sig.length = l.toNat then some (key, sig) else none
    | _ => none
  | _ => none

/-! ### MakeSecretConnection -/

/-- libsodium's blacklist of low-order points, as listed in the source -/
def blacklist : List Bytes := [
  List.replicate 32 0,
  1 :: List.replicate 31 0,
  [0xe0, 0xeb, 0x7a, 0x7c, 0x3b, 0x41, 0xb8, 0xae, 0x16, 0x56, 0xe3,
   0xfa, 0xf1, 0x9f, 0xc4, 0x6a, 0xda, 0x09, 0x8d, 0xeb, 0x9c, 0x32,
   0xb1, 0xfd, 0x86, 0x62, 0x05, 0x16, 0x5f, 0x49, 0xb8, 0x00],
  [0x5f, 0x9c, 0x95, 0xbc, 0xa3, 0x50, 0x8c, 0x24, 0xb1, 0xd0, 0xb1,
   0x55, 0x9c, 0x83, 0xef, 0x5b, 0x04, 0x44, 0x5c, 0xc4, 0x58, 0x1c,
   0x8e, 0x86, 0xd8, 0x22, 0x4e, 0xdd, 0xd0, 0x9f, 0x11, 0x57],
  0xec :: (List.replicate 30 0xff ++ [0x7f]),
  0xed :: (List.replicate 30 0xff ++ [0x7f]),
  0xee :: (List.replicate 30 0xff ++ [0x7f])]

def hasSmallOrder (pub : Bytes) : Bool := blacklist.contains pub

/-- `bytes.Compare(a, b) < 0` -/
def bytesLt : Bytes → Bytes → Bool
  | [], [] => false
  | [], _ :: _ => true
  | _ :: _, [] => false
  | a :: as, b :: bs => if a < b then true else if b < a then false else bytesLt as bs

/-- `sort32` then `bytes.Equal(locEphPub, loEphPub)`: note that equal keys make BOTH
    sides "least" -/
def locIsLeast (loc rem : Bytes) : Bool :=
  let lo := if bytesLt loc rem then loc else rem
  loc = lo

inductive HsErr where
  /-- reading the peer's ephemeral key failed -/
  | ephRead (e : SizedErr)
  | ephDecode
  | smallOrder
  /-- X25519 returned an error -/
  | dh
  | authRead (e : SizedErr)
  | authDecode
  /-- "challenge verification failed" -/
  | challenge
  /-- incrNonce panicked while writing the auth message (unreachable from zero nonces) -/
  | panicNonce
  deriving Repr, DecidableEq

structure HsOut where
  /-- everything this side handed to `conn.Write`, in order -/
  written : Bytes
  /-- incoming bytes not consumed -/
  rest : Bytes
  result : Except HsErr SC
  /-- the challenge this side derived (for the statements of the theorems) -/
  challenge : Bytes

/-- `deriveSecretAndChallenge`: (recvSecret, sendSecret, challenge) -/
def deriveSecrets (okm : Bytes) (least : Bool) : Bytes × Bytes × Bytes :=
  let k1 := okm.take 32
  let k2 := (okm.drop 32).take 32
  let ch := (okm.drop 64).take 32
  if least then (k1, k2, ch) else (k2, k1, ch)

/-- the second half of `MakeSecretConnection`, once the secrets are derived: build the
    connection, sign the challenge, exchange the auth messages over it, verify.
    `w1` = what was already written, `conn` = incoming bytes still in flight. -/
def authenticate (P : Prims) (A : AEAD) (locPriv w1 conn : Bytes)
    (recvSecret sendSecret challenge : Bytes) : HsOut :=
  let locPub := P.pubKey locPriv
  let sc : SC := ⟨sendSecret, recvSecret, nonceOf 0, nonceOf 0, [], []⟩
  let locSignature := P.sign locPriv challenge
  -- shareAuthSignature
  let w := write A sc (encAuth locPub locSignature)
  if w.panicked then ⟨w1 ++ w.wire, conn, .error .panicNonce, challenge⟩ else
  match readSized A ⟨some w.sc, conn⟩ with
  | (r2, .error e) => ⟨w1 ++ w.wire, r2.conn, .error (.authRead e), challenge⟩
  | (r2, .ok body) =>
    match decAuthBody body with
    | none => ⟨w1 ++ w.wire, r2.conn, .error .authDecode, challenge⟩
    | some (remPubKey, remSignature) =>
      if ¬ P.verify remPubKey challenge remSignature then
        ⟨w1 ++ w.wire, r2.conn, .error .challenge, challenge⟩
      else
        let sc2 := (r2.sc.getD w.sc)
        ⟨w1 ++ w.wire, r2.conn, .ok { sc2 with remPubKey := remPubKey }, challenge⟩

/-- `MakeSecretConnection(conn, locPrivKey)` with the ephemeral private key that
    `genEphKeys` drew, on a connection whose incoming queue holds `incoming`. -/
def makeSecretConnection (P : Prims) (A : AEAD)
    (locPriv locEphPriv : Bytes) (incoming : Bytes) : HsOut :=
  let locEphPub := P.ephPub locEphPriv
  let w1 := encEph locEphPub
  -- shareEphPubKey
  match readSized A ⟨none, incoming⟩ with
  | (r1, .error e) => ⟨w1, r1.conn, .error (.ephRead e), []⟩
  | (r1, .ok body) =>
    match decEphBody body with
    | none => ⟨w1, r1.conn, .error .ephDecode, []⟩
    | some remEphPub =>
      if hasSmallOrder remEphPub then ⟨w1, r1.conn, .error .smallOrder, []⟩ else
      let least := locIsLeast locEphPub remEphPub
      match P.dh locEphPriv remEphPub with
      | none => ⟨w1, r1.conn, .error .dh, []⟩
      | some dhSecret =>
        let s := deriveSecrets (P.kdf dhSecret) least
        authenticate P A locPriv w1 r1.conn s.1 s.2.1 s.2.2

end GnoVerif.C42
