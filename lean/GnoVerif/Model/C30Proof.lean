import GnoVerif.Model.C30Avl
/-!
# Model for C30, part 3: ICS23 proofs of an immutable IAVL tree

Sources: `proof.go` (`ProofInnerNode`, `PathToLeaf` / `pathToLeaf`),
`proof_ics23.go` (`createExistenceProof`, `convertLeafOp`, `convertInnerOps`,
`GetMembershipProof`, `GetNonMembershipProof`), and — for the verifier side —
the part of `github.com/cosmos/ics23/go` that computes a root from an
`ExistenceProof` under `IavlSpec` (`LeafOp.Apply` with `PrehashValue = SHA256`,
`Length = VAR_PROTO`; `InnerOp.Apply`).  The ICS23 *verifier* (spec checks,
neighbour tests of absence proofs) is a third-party library and is not
modelled; what it computes from a proof (`ExistProof.calc`) is.

Everything is parametric in the hash function `H`.
Core-only.
-/
namespace GnoVerif.C30

/-- `type ProofInnerNode struct { Height; Size; Version; Left; Right }` (nil = `none`) -/
structure PIN where
  height : Int
  size : Int
  version : Int
  left : Option Bytes
  right : Option Bytes
  deriving Repr

/-- `ics23.InnerOp { Hash: SHA256, Prefix, Suffix }` -/
structure InnerOp where
  pfx : Bytes
  sfx : Bytes
  deriving Repr, DecidableEq

/-- `ics23.ExistenceProof { Key, Value, Leaf: LeafOp{SHA256, prehash value SHA256, VAR_PROTO, Prefix}, Path }` -/
structure ExistProof where
  key : Bytes
  value : Bytes
  leafPrefix : Bytes
  path : List InnerOp
  deriving Repr, DecidableEq

/-- `ics23.NonExistenceProof { Key, Left, Right }` -/
structure NonExistProof where
  key : Bytes
  left : Option ExistProof
  right : Option ExistProof
  deriving Repr

namespace Node

/-- `pathToLeaf`: the inner nodes from the root down (root first), the leaf reached,
and whether its key is the one asked for (otherwise Go returns the error
"key does not exist" together with the same path and leaf) -/
def pathToLeaf (H : Bytes → Bytes) (version : Int) : Node → Bytes → List PIN × Node × Bool
  | leaf k v n, key => ([], leaf k v n, decide (k = key))
  | inner k h s n l r, key =>
    let nodeVersion := hashVersion version n
    if key < k then
      let (p, lf, found) := l.pathToLeaf H version key
      (⟨h, s, nodeVersion, none, some (r.hash H version)⟩ :: p, lf, found)
    else
      let (p, lf, found) := r.pathToLeaf H version key
      (⟨h, s, nodeVersion, some (l.hash H version), none⟩ :: p, lf, found)

end Node

/-- `convertLeafOp(version).Prefix` -/
def leafPrefix (version : Int) : Bytes := Node.varint 0 ++ Node.varint 1 ++ Node.varint version

/-- one step of `convertInnerOps` -/
def convertInner (p : PIN) : InnerOp :=
  let pre := Node.varint p.height ++ Node.varint p.size ++ Node.varint p.version
  match p.left with
  | some lh =>
    if lh.length > 0 then ⟨pre ++ [0x20] ++ lh ++ [0x20], []⟩
    else ⟨pre ++ [0x20], 0x20 :: p.right.getD []⟩
  | none => ⟨pre ++ [0x20], 0x20 :: p.right.getD []⟩

/-- `convertInnerOps`: leaf-to-root order -/
def convertInnerOps (path : List PIN) : List InnerOp := path.reverse.map convertInner

/-- `createExistenceProof` on a non-nil root of the immutable tree at `treeVersion`:
the proof for the leaf the search ends in, and whether that leaf has the key -/
def createExistenceProof (H : Bytes → Bytes) (treeVersion : Int) (root : Node) (key : Bytes) :
    ExistProof × Bool :=
  let (path, lf, found) := root.pathToLeaf H (treeVersion + 1) key
  match lf with
  | .leaf k v n =>
    (⟨k, v, leafPrefix (Node.hashVersion (treeVersion + 1) n), convertInnerOps path⟩, found)
  | .inner k _ _ _ _ _ => (⟨k, [], [], []⟩, false)   -- unreachable: pathToLeaf ends in a leaf

/-- `GetMembershipProof` -/
def membershipProof (H : Bytes → Bytes) (treeVersion : Int) (root : Node) (key : Bytes) :
    Except Err ExistProof :=
  let (p, found) := createExistenceProof H treeVersion root key
  if found then .ok p else .error .absent

/-- `GetNonMembershipProof` -/
def nonMembershipProof (H : Bytes → Bytes) (treeVersion : Int) (root : Option Node) (key : Bytes) :
    Except Err NonExistProof :=
  match root with
  | none => .ok ⟨key, none, none⟩
  | some r =>
    let (idx, val) := r.get key
    match val with
    | some _ => .error .present
    | none =>
      let left : Option ExistProof :=
        if idx ≥ 1 then
          match r.getByIndex (idx - 1) with
          | some (lk, _) => some (createExistenceProof H treeVersion r lk).1
          | none => none   -- Go would pass a nil key on; unreachable for 1 ≤ idx ≤ size
        else none
      let right : Option ExistProof :=
        match r.getByIndex idx with
        | some (rk, _) => some (createExistenceProof H treeVersion r rk).1
        | none => none
      .ok ⟨key, left, right⟩

/-! ## what ICS23 computes from an existence proof (`ExistenceProof.Calculate`, IavlSpec) -/

/-- `LeafOp.Apply`: `H(prefix ‖ uvarint(len key) ‖ key ‖ uvarint(len H(value)) ‖ H(value))` -/
def applyLeaf (H : Bytes → Bytes) (pfx key value : Bytes) : Bytes :=
  H (pfx ++ Node.encodeBytes key ++ Node.encodeBytes (H value))

/-- `InnerOp.Apply`: `H(prefix ‖ child ‖ suffix)` -/
def applyInner (H : Bytes → Bytes) (op : InnerOp) (child : Bytes) : Bytes :=
  H (op.pfx ++ child ++ op.sfx)

/-- `ExistenceProof.Calculate` -/
def ExistProof.calc (H : Bytes → Bytes) (p : ExistProof) : Bytes :=
  p.path.foldl (fun acc op => applyInner H op acc) (applyLeaf H p.leafPrefix p.key p.value)

end GnoVerif.C30
