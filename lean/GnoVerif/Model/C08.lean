import GnoVerif.Model.C08Coins
/-
C08 — executable model of "who can make coins leave an address".

Mirrors, line by line:
  * gnovm/stdlibs/chain/banker/banker.gno   NewBanker, NewReadonlyBanker, banker.SendCoins /
                                             IssueCoin / RemoveCoin, assertCoinDenom
  * gnovm/stdlibs/chain/banker/banker.go    X_bankerSendCoins (origin-send budget), X_bankerIssueCoin, …
  * gno.land/pkg/sdk/vm/builtins.go         SDKBanker (address parsing, assertIssuable)
  * tm2/pkg/sdk/bank/keeper.go, supply.go   SendCoins, SendCoinsUnrestricted, MintCoins, BurnCoins
                                             (decision level: validity, funds, supply range)
  * gnovm/pkg/gnolang/uverse.go             the realm value: IsCurrent (identity with the topmost
                                             crossing frame's cur, parent-anchored for sub tokens),
                                             Previous, IsUserCall, Sub and its guards, cross(rlm)
  * gno.land/pkg/sdk/vm/keeper.go           Call / Run (send to the package address, origin realm),
                                             processStorageDeposit, lockStorageDeposit, refundStorageDeposit
  * gno.land/pkg/sdk/vm/params_deposit.go   recordParamsDelta (per-realm byte accounting)
  * tm2/pkg/sdk/params/keeper.go            `set` (byte delta of a string parameter)

Realm values and bankers are REFERENCES into two append-only registries of the running
message (`toks`, `bankers`): the VM mints a realm value only at a crossing call or in
`Sub`, and the `banker` struct type is unexported, so Gno code can only copy such values
around, never build one.  That is the language guarantee this model takes as given
(DESIGN.md §7 C08 residual); what the code decides on top of it is modelled exactly.

The programs are scripts of the harness's interpreter realms (harness/cmd/c08/gno.go).
Core Lean only.
-/
namespace GnoVerif.C08

/-! ## addresses -/

/-- Addresses by derivation.  `user i` is an externally owned account; `pkg p` is
    `DerivePkgCryptoAddr(p)` for a non-run path `p` (a realm path, or a synthesized
    sub-realm path `host#sub`); `dep p` is `DeriveStorageDepositCryptoAddr(p)`; `col` the
    storage fee collector.  Distinct constructors/arguments = distinct addresses
    (hash-collision freedom is the stated assumption). -/
inductive Addr where
  | user (i : Nat)
  | pkg (path : Str)
  | dep (path : Str)
  | col
deriving DecidableEq, Repr

/-- `gno.land/e/<user>/run` (the path is only compared and classified, never parsed). -/
def runPath (i : Nat) : Str := S!"gno.land/e/u" ++ (toString i).toList ++ S!"/run"

/-! ## failures (canonical classes; the harness maps messages onto the same tokens) -/

inductive Fail where
  | script | btReadonly | btInvalid | notCurrent | subBt | notOrigin | readonlySend | foreignFrom
  | baseDenom | denomPrefix | notIssuer | originAdd | originLimit | crossStale
  | subEmpty | subLong | subHost | subGrammar | subStale | subEphemeral | subForeign
  | noPrevious | nil | index | insufficient | invalidCoins | supplyRange | badAddress
  | basic | unknownAddress | depositShort | depositLock | depositUnknownRealm | depositPanic
  | paramKey | fuel | issueInvalid | restricted
deriving DecidableEq, Repr

def Fail.token : Fail → String
  | .script => "err:script" | .btReadonly => "err:bt-readonly" | .btInvalid => "err:bt-invalid"
  | .notCurrent => "err:not-current" | .subBt => "err:sub-bt" | .notOrigin => "err:not-origin"
  | .readonlySend => "err:readonly-send" | .foreignFrom => "err:foreign-from"
  | .baseDenom => "err:base-denom" | .denomPrefix => "err:denom-prefix" | .notIssuer => "err:not-issuer"
  | .originAdd => "err:origin-add" | .originLimit => "err:origin-limit" | .crossStale => "err:cross-stale"
  | .subEmpty => "err:sub-empty" | .subLong => "err:sub-long" | .subHost => "err:sub-host"
  | .subGrammar => "err:sub-grammar" | .subStale => "err:sub-stale" | .subEphemeral => "err:sub-ephemeral"
  | .subForeign => "err:sub-foreign" | .noPrevious => "err:no-previous" | .nil => "err:nil"
  | .index => "err:index" | .insufficient => "err:insufficient" | .invalidCoins => "err:invalid-coins"
  | .supplyRange => "err:issue-rejected" | .issueInvalid => "err:issue-rejected" | .badAddress => "err:bad-address" | .basic => "err:basic"
  | .unknownAddress => "err:unknown-address" | .depositShort => "err:deposit-short"
  | .depositLock => "err:deposit-lock" | .depositUnknownRealm => "err:deposit-unknown-realm"
  | .restricted => "err:restricted" | .depositPanic => "err:deposit-panic" | .paramKey => "err:param-key" | .fuel => "err:fuel"

/-! ## ledger with an event log -/

/-- why a balance moved -/
inductive Cause where
  | msgSend                    -- keeper: msg.Send, signer → package address
  | bankerSend (bid : Nat)     -- banker #bid: SendCoins
  | mint (bid : Nat)           -- banker #bid: IssueCoin
  | burn (bid : Nat)           -- banker #bid: RemoveCoin
  | depositLock (realm : Str)  -- processStorageDeposit: caller → deposit address of realm
  | depositRefund (realm : Str) -- processStorageDeposit: deposit address of realm → receiver
  | bankSend                   -- bank MsgSend: signer → recipient
deriving DecidableEq, Repr

/-- one balance movement: `amt` is signed (negative = the address was debited) -/
structure Ev where
  addr : Addr
  denom : Str
  amt : Int
  cause : Cause
deriving Repr

structure Ledger where
  bal : Addr → Str → Int
  supply : Str → Int

def Ledger.credit (l : Ledger) (a : Addr) (d : Str) (x : Int) : Ledger :=
  { l with bal := fun a' d' => if a' = a ∧ d' = d then l.bal a' d' + x else l.bal a' d' }

def Ledger.setSupply (l : Ledger) (d : Str) (x : Int) : Ledger :=
  { l with supply := fun d' => if d' = d then x else l.supply d' }

/-- ledger + log; every balance change goes through `move` -/
structure Bank where
  led : Ledger
  log : List Ev   -- newest first

def Bank.move (b : Bank) (a : Addr) (d : Str) (x : Int) (c : Cause) : Bank :=
  { led := b.led.credit a d x, log := ⟨a, d, x, c⟩ :: b.log }

/-- every coin of `cs` is covered by `a`'s balance (bank `subtract`, both tiers) -/
def hasFunds (l : Ledger) (a : Addr) (cs : Coins) : Bool :=
  cs.all (fun c => decide (c.amount ≤ l.bal a c.denom))

def debitAll (b : Bank) (a : Addr) (cs : Coins) (c : Cause) : Bank :=
  cs.foldl (fun b coin => b.move a coin.denom (-coin.amount) c) b

def creditAll (b : Bank) (a : Addr) (cs : Coins) (c : Cause) : Bank :=
  cs.foldl (fun b coin => b.move a coin.denom coin.amount c) b

/-- `subtractCoinsUnrestricted` / `SubtractCoins` (no vesting accounts here): validity, funds. -/
def subtractCoins (b : Bank) (a : Addr) (cs : Coins) (c : Cause) : Except Fail Bank :=
  if !coinsValid cs then .error .invalidCoins
  else if !hasFunds b.led a cs then .error .insufficient
  else .ok (debitAll b a cs c)

/-- `AddCoins` (balance overflow is unreachable below the per-denom supply cap). -/
def addCoins (b : Bank) (a : Addr) (cs : Coins) (c : Cause) : Except Fail Bank :=
  if !coinsValid cs then .error .invalidCoins else .ok (creditAll b a cs c)

/-- `SendCoinsUnrestricted` -/
def sendUnrestricted (b : Bank) (src dst : Addr) (cs : Coins) (c : Cause) : Except Fail Bank := do
  let b ← subtractCoins b src cs c
  addCoins b dst cs c

/-- `Coins.ContainOneOfDenom({ugnot})`: a positive amount of the restricted denomination -/
def hasRestricted (cs : Coins) : Bool := cs.any (fun c => c.denom == S!"ugnot" && decide (0 < c.amount))

/-- `BankKeeper.SendCoins` (no session): zero is a no-op; with `restricted` (the bank param
    `restricted_denoms` = [ugnot]; no account here is token-lock whitelisted) a send carrying
    ugnot is refused before anything else is looked at. -/
def sendCoins (restricted : Bool) (b : Bank) (src dst : Addr) (cs : Coins) (c : Cause) : Except Fail Bank :=
  if coinsIsZero cs then .ok b
  else if restricted && hasRestricted cs then .error .restricted
  else sendUnrestricted b src dst cs c

/-- `MintCoins` of ONE coin (what `SDKBanker.IssueCoin` passes).  `validateIssuance` and the
    supply-range error are plain `fmt.Errorf` values: the keeper's bounded panic rendering
    shows both as the same opaque text, hence one canonical token for the two classes. -/
def mintCoin (b : Bank) (a : Addr) (d : Str) (x : Int) (c : Cause) : Except Fail Bank :=
  if !coinsValid [⟨d, x⟩] then .error .issueInvalid
  else if maxInt64 < b.led.supply d + x then .error .supplyRange
  else .ok { (b.move a d x c) with led := (b.move a d x c).led.setSupply d (b.led.supply d + x) }

/-- `BurnCoins` of ONE coin. -/
def burnCoin (b : Bank) (a : Addr) (d : Str) (x : Int) (c : Cause) : Except Fail Bank :=
  if !coinsValid [⟨d, x⟩] then .error .issueInvalid
  else if b.led.supply d - x < 0 then .error .supplyRange
  else if b.led.bal a d < x then .error .insufficient
  else .ok { (b.move a d (-x) c) with led := (b.move a d (-x) c).led.setSupply d (b.led.supply d - x) }

/-! ## realm values and bankers (registries of one message) -/

inductive TKind where
  | origin                                   -- chain root: prev truly nil
  | cur                                      -- minted for a crossing frame (or main(cur realm))
  | sub (parent : Nat) (name : Str)          -- minted by parent.Sub(name)
deriving DecidableEq, Repr

structure TokInfo where
  addr : Addr
  path : Str
  prev : Option Nat
  kind : TKind
  /-- ghost: the topmost crossing frame's cur when this value was minted (`none`: chain root) -/
  under : Option Nat := none
  /-- ghost: the package whose code minted it (for `Sub`: the caller's namespace) -/
  owner : Str := []
deriving Repr

inductive BSrc where
  | persisted               -- stored in realm state by an earlier transaction
  | readonly                -- NewReadonlyBanker
  | minted (tok : Nat) (top : Nat)   -- NewBanker(bt, tok) while `top` was the live cur
deriving DecidableEq, Repr

structure BankerInfo where
  bt : Nat
  addr : Option Addr   -- pkgAddr ("" for the readonly banker)
  path : Str
  src : BSrc
deriving Repr

/-! ## scripts -/

inductive RV where
  | c | a | p | q
  | s (name : Str)
  | t (name : Str)
deriving Repr

inductive Tgt where
  | self
  | realm (name : Str)    -- short name: ra / rb / rc / anything else
deriving Repr

mutual
inductive Mode where
  | c | ca | cg | cp
  | cs (name : Str)
  | n | ng
  | k (body : List Ins)
  | bad
inductive Ins where
  | nb (bt : Nat) (rv : RV)
  | ro
  | ld (i : Nat)
  | lg (i : Nat)
  | ub
  | sd (src dst : Str) (coins : Coins)
  | is (addr : Str) (denom : Str) (amt : Int)
  | rm (addr : Str) (denom : Str) (amt : Int)
  | ps (key : Str) (n : Nat)
  | cb
  | x (mode : Mode) (tgt : Tgt) (prog : List Ins)
  | bad
end

/-- a callback: the creator's registers, captured by value -/
inductive Clo where
  | mk (owner : Str) (me arg bk : Option Nat) (cb : Option Clo) (body : List Ins)

/-! ## static environment of a message -/

structure Env where
  /-- symbolic address token → address (`none`: not a bech32 address) -/
  resolve : Str → Option Addr
  /-- realm short name → package path, as importable from the package `owner` -/
  target : Str → Str → Option Str
  /-- persisted bankers: package path → slot → banker id (in the initial registry) -/
  saved : Str → Nat → Option Nat
  given : Str → Nat → Option Nat
  /-- number of slots of `saved`/`given` (index out of range beyond) -/
  slots : Str → Option Nat
  /-- msg.Send -/
  osend : Coins
  /-- is the path an ephemeral (/e/) run path -/
  ephemeral : Str → Bool
  /-- is ugnot a restricted denomination for this message -/
  restricted : Bool := false

/-! ## running state of a message -/

/-- params_deposit.go `realmAccum` -/
structure Accum where
  bytes : Int
  delta : Int
deriving Repr, DecidableEq

structure St where
  bank : Bank
  toks : List TokInfo
  bankers : List BankerInfo
  spent : Coins                              -- *ctx.OriginSendSpent
  /-- stored chain/params string values: (realm path, key) ↦ byte length of the stored JSON -/
  params : List ((Str × Str) × Nat)
  /-- `_realmmeta_<realm>` persisted running totals -/
  rmeta : List (Str × Int)
  /-- per-message accumulator -/
  accum : List (Str × Accum)

structure Ctx where
  owner : Str
  me : Option Nat
  arg : Option Nat
  bk : Option Nat
  cb : Option Clo
  stack : List Nat

section AList
variable {κ ν : Type} [DecidableEq κ]
def alGet : List (κ × ν) → κ → Option ν
  | [], _ => none
  | (k', v) :: m, k => if k' = k then some v else alGet m k
def alSet : List (κ × ν) → κ → ν → List (κ × ν)
  | [], k, v => [(k, v)]
  | (k', v') :: m, k, v => if k' = k then (k, v) :: m else (k', v') :: alSet m k v
end AList

def St.tok (st : St) (t : Nat) : Option TokInfo := st.toks[t]?
def St.banker (st : St) (b : Nat) : Option BankerInfo := st.bankers[b]?

def St.addTok (st : St) (ti : TokInfo) : Nat × St := (st.toks.length, { st with toks := st.toks ++ [ti] })
def St.addBanker (st : St) (bi : BankerInfo) : Nat × St := (st.bankers.length, { st with bankers := st.bankers ++ [bi] })

/-- `realmIsCurrentOnMachine`: identity with the topmost crossing frame's cur; a sub token
    is current iff its minting cur is. -/
def isCurrent (st : St) (stack : List Nat) (t : Nat) : Bool :=
  match stack.head?, st.tok t with
  | some top, some ti =>
    (match ti.kind with
     | .sub parent _ => parent == top
     | .cur => t == top
     | .origin => false)
  | _, _ => false

def hasHash (s : Str) : Bool := s.any (· == '#')

/-! ### `Sub` -/

def isSubSegChar (c : Char) : Bool := isLower c || isDigit c
def validSegment (seg : Str) : Bool :=
  match seg with
  | [] => false
  | [c] => isSubSegChar c
  | c :: rest =>
    isSubSegChar c &&
    (match rest.getLast? with | some l => isSubSegChar l | none => false) &&
    rest.dropLast.all (fun x => isSubSegChar x || x == '_' || x == '.' || x == '-')

def splitSlash : Str → List Str
  | [] => [[]]
  | c :: rest =>
    match splitSlash rest with
    | [] => [[c]]   -- unreachable
    | seg :: segs => if c == '/' then [] :: seg :: segs else (c :: seg) :: segs

/-- uverse.go `isValidSubpath` -/
def validSubpath (s : Str) : Bool := (splitSlash s).all validSegment

/-- `recv.Sub(name)` executed by code of package `owner` under frame stack `stack`. -/
def subTok (env : Env) (st : St) (cx : Ctx) (recv : Option Nat) (name : Str) : Except Fail (Nat × St) :=
  match recv with
  | none => .error .nil
  | some r =>
    match st.tok r with
    | none => .error .nil
    | some ri =>
      let host := ri.path
      let synth := host ++ '#' :: name
      if name.isEmpty then .error .subEmpty
      else if 256 < synth.length then .error .subLong
      else if hasHash host then .error .subHost
      else if !validSubpath name then .error .subGrammar
      else match cx.stack.head? with
        | none => .error .subStale
        | some top =>
          -- strict identity with the topmost crossing frame's Cur; a frame's Cur is a primary
          -- cur by construction (installCrossingCur), never an origin value or a sub token
          if r != top || ri.kind != .cur then .error .subStale
          else if env.ephemeral host then .error .subEphemeral
          else if cx.owner != host then .error .subForeign
          else .ok (st.addTok { addr := .pkg synth, path := synth, prev := ri.prev, kind := .sub r name,
                                under := some top, owner := cx.owner })

/-- `recv.Previous()` -/
def prevTok (st : St) (recv : Option Nat) : Except Fail Nat :=
  match recv with
  | none => .error .nil
  | some r =>
    match st.tok r with
    | none => .error .nil
    | some ri => match ri.prev with
      | none => .error .noPrevious
      | some p => .ok p

/-- evaluate a realm-value expression of the script (may mint a sub token); `none` = nil -/
def evalRV (env : Env) (st : St) (cx : Ctx) : RV → Except Fail (Option Nat × St)
  | .c => .ok (cx.me, st)
  | .a => .ok (cx.arg, st)
  | .p => (prevTok st cx.me).map (fun t => (some t, st))
  | .q => (prevTok st cx.arg).map (fun t => (some t, st))
  | .s name => (subTok env st cx cx.me name).map (fun (t, st) => (some t, st))
  | .t name => (subTok env st cx cx.arg name).map (fun (t, st) => (some t, st))

/-! ### banker.gno -/

/-- `rlm.Previous().IsUserCall()`: the previous realm value has an empty package path. -/
def prevIsUserCall (st : St) (ti : TokInfo) : Except Fail Bool :=
  match ti.prev with
  | none => .error .noPrevious
  | some p => match st.tok p with
    | none => .error .nil
    | some pi => .ok pi.path.isEmpty

/-- `banker.NewBanker(BankerType(bt), rlm)` -/
def newBanker (st : St) (cx : Ctx) (bt : Nat) (rlm : Option Nat) : Except Fail (Nat × St) :=
  let bt := bt % 256            -- BankerType is a uint8: the conversion wraps
  if bt = 0 then .error .btReadonly
  else if 4 ≤ bt then .error .btInvalid
  else match rlm with
    | none => .error .nil
    | some t =>
      match st.tok t with
      | none => .error .nil
      | some ti =>
        if !isCurrent st cx.stack t then .error .notCurrent
        else if bt != 2 && hasHash ti.path then .error .subBt
        else
          let mk : Nat × St := st.addBanker { bt := bt, addr := some ti.addr, path := ti.path,
                                              src := .minted t (cx.stack.head?.getD 0) }
          if bt = 1 then
            match prevIsUserCall st ti with
            | .error f => .error f
            | .ok uc => if uc then .ok mk else .error .notOrigin
          else .ok mk

def readonlyBanker (st : St) : Nat × St :=
  st.addBanker { bt := 0, addr := none, path := [], src := .readonly }

/-- X_bankerSendCoins, `case btOriginSend`: `spent := (*ctx.OriginSendSpent).Add(amt)` (panics on an
    invalid sum), then `ctx.OriginSend.IsAllGTE(spent)`; returns the new running total.  Other
    banker types leave the total alone. -/
def originCheck (osend spent : Coins) (bt : Nat) (amt : Coins) : Except Fail Coins :=
  if bt = 1 then
    match coinsAdd spent amt with
    | none => .error .originAdd
    | some s => if isAllGTE osend s then .ok s else .error .originLimit
  else .ok spent

/-- `b.SendCoins(from, to, amt)` down to the bank keeper -/
def bankerSend (env : Env) (st : St) (b : Option Nat) (src dst : Str) (amt : Coins) : Except Fail St :=
  match b with
  | none => .error .nil
  | some bid =>
    match st.banker bid with
    | none => .error .nil
    | some bi =>
      if bi.bt = 0 then .error .readonlySend
      else if bi.addr.isNone || bi.addr != env.resolve src then .error .foreignFrom
      else do
        -- X_bankerSendCoins: the origin-send budget is checked before anything moves
        let spent' ← originCheck env.osend st.spent bi.bt amt
        -- SDKBanker.SendCoins: both addresses must parse
        match env.resolve src, env.resolve dst with
        | some s, some d =>
          let bank ← sendCoins env.restricted st.bank s d amt (.bankerSend bid)
          pure { st with bank := bank, spent := spent' }
        | _, _ => .error .badAddress

/-- `b.IssueCoin(addr, denom, amount)` / `b.RemoveCoin(...)` -/
def bankerIssue (env : Env) (st : St) (b : Option Nat) (burn : Bool) (addr denom : Str) (amt : Int) : Except Fail St :=
  match b with
  | none => .error .nil
  | some bid =>
    match st.banker bid with
    | none => .error .nil
    | some bi =>
      if bi.bt != 3 then .error .notIssuer
      else match assertCoinDenom denom bi.path with
        | .error .badPrefix => .error .denomPrefix
        | .error .badBase => .error .baseDenom
        | .ok () =>
          -- SDKBanker: assertIssuable holds (the prefix starts with "/"); the address must parse
          match env.resolve addr with
          | none => .error .badAddress
          | some a =>
            match (if burn then burnCoin st.bank a denom amt (.burn bid) else mintCoin st.bank a denom amt (.mint bid)) with
            | .error f => .error f
            | .ok bank => .ok { st with bank := bank }

/-! ### chain/params: a string parameter of the current realm -/

/-- keeper `set`: diff = len(new) − len(old) (+ len(fullkey) on creation); the JSON of a
    string of n plain bytes is n+2 bytes; fullkey = "vm:" + realm + ":" + key. -/
def paramDiff (st : St) (realm key : Str) (n : Nat) : Int :=
  let fullLen : Int := (3 + realm.length + 1 + key.length : Nat)
  let newLen : Int := (n + 2 : Nat)
  match alGet st.params (realm, key) with
  | some old => newLen - (old : Int)
  | none => newLen + fullLen

/-- params_deposit.go `recordParamsDelta` on the (lazily loaded) accumulator entry -/
def accumAdd (a : Accum) (diff : Int) : Accum :=
  let bytes := a.bytes + diff
  let floored := decide (bytes < 0)
  let delta := a.delta + diff
  ⟨if floored then 0 else bytes, if floored && decide (delta < 0) then 0 else delta⟩

def curAccum (st : St) (realm : Str) : Accum :=
  match alGet st.accum realm with
  | some a => a
  | none => ⟨(alGet st.rmeta realm).getD 0, 0⟩

def setParamOk (st : St) (realm key : Str) (n : Nat) : St :=
  { st with params := alSet st.params (realm, key) (n + 2),
            accum := if paramDiff st realm key n = 0 then st.accum
                     else alSet st.accum realm (accumAdd (curAccum st realm) (paramDiff st realm key n)) }

/-- `params.SetString(key, n × 'x')` executed while `realm` is the current realm
    (`pkey` rejects an empty key and a key with a colon). -/
def setParam (st : St) (realm key : Str) (n : Nat) : Except Fail St :=
  if key.isEmpty || key.any (· == ':') then .error .paramKey else .ok (setParamOk st realm key n)

/-! ### the interpreter -/

/-- enter a crossing function of package `path` presenting realm value `presented`
    (already validated by `cross`): mint the frame's cur. -/
def enterCross (st : St) (cx : Ctx) (path : Str) (presented : Nat) : Nat × St :=
  st.addTok { addr := .pkg path, path := path, prev := some presented, kind := .cur,
              under := cx.stack.head?, owner := cx.owner }

/-- `cross(rlm)` -/
def crossCheck (st : St) (cx : Ctx) (rlm : Option Nat) : Except Fail Nat :=
  match rlm with
  | none => .error .crossStale
  | some t => if isCurrent st cx.stack t then .ok t else .error .crossStale

def resolveTgt (env : Env) (cx : Ctx) : Tgt → Option Str
  | .self => if env.ephemeral cx.owner then none else some cx.owner
  | .realm n => env.target cx.owner n

def loadSlot (env : Env) (tbl : Str → Nat → Option Nat) (owner : Str) (i : Nat) : Except Fail (Option Nat) :=
  match env.slots owner with
  | none => .ok none                        -- package main: loadSaved/loadGiven return nil
  | some k => if i < k then .ok (tbl owner i) else .error .index

/-- the instructions that do not call other code: new banker register and state. -/
def prim (env : Env) (cx : Ctx) (b : Option Nat) (i : Ins) (st : St) : Except Fail (Option Nat × St) :=
  match i with
  | .nb bt rv => do
    let (t, st) ← evalRV env st cx rv
    let (bid, st) ← newBanker st cx bt t
    pure (some bid, st)
  | .ro =>
    let (bid, st) := readonlyBanker st
    .ok (some bid, st)
  | .ld i => do
    let b ← loadSlot env env.saved cx.owner i
    pure (b, st)
  | .lg i => do
    let b ← loadSlot env env.given cx.owner i
    pure (b, st)
  | .ub => .ok (cx.bk, st)
  | .sd src dst amt => do
    let st ← bankerSend env st b src dst amt
    pure (b, st)
  | .is addr denom amt => do
    let st ← bankerIssue env st b false addr denom amt
    pure (b, st)
  | .rm addr denom amt => do
    let st ← bankerIssue env st b true addr denom amt
    pure (b, st)
  | .ps key n =>
    match cx.stack.head? with
    | none => .error .nil
    | some top =>
      match st.tok top with
      | none => .error .nil
      | some ti => do
        let st ← setParam st ti.path key n
        pure (b, st)
  | .bad => .error .script
  | .cb => .error .script        -- not primitive (handled by `exec`)
  | .x _ _ _ => .error .script   -- not primitive (handled by `exec`)

/-- the context a callback body runs in: the creator's registers, the CALLER's frame stack -/
def Clo.ctx : Clo → List Nat → Ctx
  | .mk owner me arg bk cb _, stack => { owner := owner, me := me, arg := arg, bk := bk, cb := cb, stack := stack }

def Clo.body : Clo → List Ins
  | .mk _ _ _ _ _ body => body

/-- a crossing call into package `path`: the frame's cur is minted, the callee's registers
    are what the call passes. -/
def crossCtx (st : St) (cx : Ctx) (path : Str) (presented : Nat) (arg bk : Option Nat) (cb : Option Clo) : Ctx × St :=
  let (t, st) := enterCross st cx path presented
  ({ owner := path, me := some t, arg := arg, bk := bk, cb := cb, stack := t :: cx.stack }, st)

/-- `call(…)` of the interpreter realm: decide how the target is entered and with what. -/
def planCall (env : Env) (st : St) (cx : Ctx) (b : Option Nat) (mode : Mode) (tgt : Tgt) : Except Fail (Ctx × St) :=
  match resolveTgt env cx tgt with
  | none => .error .script
  | some path =>
    match mode with
    | .bad => .error .script
    | .c => do
      let p ← crossCheck st cx cx.me
      pure (crossCtx st cx path p none none none)
    | .ca => do
      let p ← crossCheck st cx cx.me
      pure (crossCtx st cx path p cx.me b none)
    | .cg => do
      let p ← crossCheck st cx cx.arg
      pure (crossCtx st cx path p none none none)
    | .cp => do
      let pv ← prevTok st cx.me
      let p ← crossCheck st cx (some pv)
      pure (crossCtx st cx path p none none none)
    | .cs name => do
      let (s, st) ← subTok env st cx cx.me name
      let p ← crossCheck st cx (some s)
      pure (crossCtx st cx path p none none none)
    | .n => .ok ({ owner := path, me := cx.me, arg := cx.me, bk := b, cb := cx.cb, stack := cx.stack }, st)
    | .ng => .ok ({ owner := path, me := cx.arg, arg := cx.arg, bk := b, cb := cx.cb, stack := cx.stack }, st)
    | .k body => do
      let p ← crossCheck st cx cx.me
      pure (crossCtx st cx path p none none (some (.mk cx.owner cx.me cx.arg b cx.cb body)))

/-- run a script: `b` is the banker register of this `run` invocation. -/
def exec (env : Env) : Nat → Ctx → Option Nat → List Ins → St → Except Fail St
  | 0, _, _, _, _ => .error .fuel
  | _ + 1, _, _, [], st => .ok st
  | f + 1, cx, b, i :: rest, st =>
    match i with
    | .cb =>
      match cx.cb with
      | none => .error .nil
      | some clo => do
        let st ← exec env f (clo.ctx cx.stack) none clo.body st
        exec env f cx b rest st
    | .x mode tgt prog => do
      let (cx', st) ← planCall env st cx b mode tgt
      let st ← exec env f cx' none prog st
      exec env f cx b rest st
    | i => do
      let (b', st) ← prim env cx b i st
      exec env f cx b' rest st

/-! ## storage deposit (keeper.go processStorageDeposit) -/

structure RealmMeta where
  storage : Int
  deposit : Int
deriving Repr, DecidableEq

/-- chain state that outlives a message -/
structure World where
  led : Ledger
  params : List ((Str × Str) × Nat)
  rmeta : List (Str × Int)
  realms : List (Str × RealmMeta)     -- deployed realms, by package path
  price : Int                          -- vm param storage_price, ugnot per byte
  defaultDeposit : Int
  restricted : Bool                    -- is ugnot a restricted denom (refunds go to the collector)
  /-- users that have an account: the genesis ones, and whoever was ever credited
      (`AddCoins` creates the account; MsgRun needs its caller to have one) -/
  hasAccount : Nat → Bool

def ugnot : Str := S!"ugnot"

/-- insertion sort of the realm paths (`slices.SortFunc(sortedRealm, strings.Compare)`) -/
def insertPath (p : Str × Int) : List (Str × Int) → List (Str × Int)
  | [] => [p]
  | q :: rest => if strLt p.1 q.1 then p :: q :: rest else q :: insertPath p rest
def sortPaths (l : List (Str × Int)) : List (Str × Int) := l.foldr insertPath []

structure DepState where
  bank : Bank
  realms : List (Str × RealmMeta)
  rmeta : List (Str × Int)
  depositAmt : Int
  short : Bool      -- a "not enough deposit" error was recorded
  lockFail : Bool   -- a lockStorageDeposit error was recorded
  unknown : Bool    -- a diff for a realm that does not exist was recorded

/-- `FlushParamsRealmAccum`: persist the realm's running byte total -/
def flushMeta (accum : List (Str × Accum)) (path : Str) (ds : DepState) : DepState :=
  match alGet accum path with
  | some a => { ds with rmeta := alSet ds.rmeta path a.bytes }
  | none => ds

/-- lock the deposit for `diff > 0` new bytes of realm `path` -/
def lockStep (w : World) (caller : Addr) (accum : List (Str × Accum)) (ds : DepState) (path : Str) (diff : Int)
    (rm : RealmMeta) : DepState :=
  let required := diff * w.price
  if ds.depositAmt < required then { ds with short := true }
  else
    match sendUnrestricted ds.bank caller (.dep path) [⟨ugnot, required⟩] (.depositLock path) with
    | .error _ => { ds with lockFail := true }
    | .ok bank =>
      let rm' : RealmMeta := ⟨rm.storage + diff, rm.deposit + required⟩
      flushMeta accum path { ds with bank := bank, depositAmt := ds.depositAmt - required, realms := alSet ds.realms path rm' }

/-- the proportional refund: everything when all storage is released, else deposit·released/storage -/
def refundAmount (rm : RealmMeta) (released : Int) : Int :=
  if rm.storage = released then rm.deposit else rm.deposit * released / rm.storage

/-- release `released > 0` bytes of realm `path`: `.error` = the loop returns/panics at once -/
def releaseStep (w : World) (caller : Addr) (accum : List (Str × Accum)) (ds : DepState) (path : Str) (released : Int)
    (rm : RealmMeta) : Except Fail DepState :=
  if rm.storage < released then .error .depositPanic
  else if rm.deposit < refundAmount rm released then .error .depositPanic
  else
    match sendUnrestricted ds.bank (.dep path) (if w.restricted then Addr.col else caller)
            [⟨ugnot, refundAmount rm released⟩] (.depositRefund path) with
    | .error _ => .error .depositLock
    | .ok bank =>
      let rm' : RealmMeta := ⟨rm.storage - released, rm.deposit - refundAmount rm released⟩
      .ok (flushMeta accum path { ds with bank := bank, realms := alSet ds.realms path rm' })

/-- one iteration of the sorted-realm loop -/
def depositStep (w : World) (caller : Addr) (accum : List (Str × Accum)) (ds : DepState) (p : Str × Int) :
    Except Fail DepState :=
  if p.2 = 0 then .ok ds
  else match alGet ds.realms p.1 with
    | none => .ok { ds with unknown := true }
    | some rm =>
      if 0 < p.2 then .ok (lockStep w caller accum ds p.1 p.2 rm)
      else releaseStep w caller accum ds p.1 (-p.2) rm

def depositLoop (w : World) (caller : Addr) (accum : List (Str × Accum)) :
    List (Str × Int) → DepState → Except Fail DepState
  | [], ds => .ok ds
  | p :: rest, ds => do
    let ds ← depositStep w caller accum ds p
    depositLoop w caller accum rest ds

/-- the per-realm storage deltas of a message, in processing order (`ParamsRealmDiffs`; the
    object-store deltas are zero for the interpreter realms, whose scripts persist nothing) -/
def storageDiffs (st : St) : List (Str × Int) :=
  sortPaths ((st.accum.filter (fun x => x.2.delta != 0)).map (fun x => (x.1, x.2.delta)))

def processStorageDeposit (w : World) (caller : Addr) (maxDeposit : Int) (st : St) : Except Fail DepState := do
  let diffs := storageDiffs st
  let ds0 : DepState := { bank := st.bank, realms := w.realms, rmeta := st.rmeta,
                          depositAmt := if maxDeposit = 0 then w.defaultDeposit else maxDeposit,
                          short := false, lockFail := false, unknown := false }
  let ds ← depositLoop w caller st.accum diffs ds0
  if ds.unknown then .error .depositUnknownRealm
  else if ds.short then .error .depositShort
  else if ds.lockFail then .error .depositLock
  else pure ds

/-! ## messages -/

inductive Msg where
  | call (signer : Nat) (realm : Str) (send : Coins) (maxDeposit : Int) (prog : List Ins)
  | run (signer : Nat) (send : Coins) (maxDeposit : Int) (prog : List Ins)
  | bankSend (signer : Nat) (dst : Str) (amt : Coins)

/-- result of a message: the new world and the event log of the message (newest first),
    or the failure (nothing is written: the transaction's cache store is dropped). -/
structure Outcome where
  world : World
  log : List Ev
  toks : List TokInfo
  bankers : List BankerInfo
  /-- the per-realm storage deltas the deposit step processed -/
  diffs : List (Str × Int)

def fuel0 : Nat := 100000

/-- does the address have an account (needed by MsgRun; `accounts` = users with one) -/
structure Chain where
  /-- static: package short name → path, persisted bankers, imports -/
  env : Coins → Env
  /-- the registry of persisted bankers (ids 0 … k-1) every message starts from -/
  persisted : List BankerInfo

/-- the static environment of a message on world `w` sending `send` along -/
def Chain.envFor (ch : Chain) (w : World) (send : Coins) : Env :=
  { ch.env send with restricted := w.restricted, osend := send }

def startState (ch : Chain) (w : World) : St :=
  { bank := ⟨w.led, []⟩, toks := [], bankers := ch.persisted, spent := [],
    params := w.params, rmeta := w.rmeta, accum := [] }

/-- receiving coins creates the account (`BankKeeper.ensureAccount`) -/
def creditedUsers (hasAccount : Nat → Bool) (log : List Ev) : Nat → Bool :=
  fun i => hasAccount i || log.any (fun e => decide (e.addr = Addr.user i) && decide (0 < e.amt))

def finish (w : World) (caller : Addr) (maxDeposit : Int) (st : St) : Except Fail Outcome := do
  let ds ← processStorageDeposit w caller maxDeposit st
  pure { world := { w with led := ds.bank.led, params := st.params, rmeta := ds.rmeta, realms := ds.realms,
                           hasAccount := creditedUsers w.hasAccount ds.bank.log },
         log := ds.bank.log, toks := st.toks, bankers := st.bankers, diffs := storageDiffs st }

def step (ch : Chain) (w : World) : Msg → Except Fail Outcome
  | .call signer realm send maxDeposit prog =>
    if !coinsValid send || maxDeposit < 0 then .error .basic
    else do
      let env := ch.envFor w send
      let st := startState ch w
      -- keeper.Call: send msg.Send to the package address, then evaluate pkg.Do(cross, …)
      let bank ← sendCoins w.restricted st.bank (.user signer) (.pkg realm) send .msgSend
      let st := { st with bank := bank }
      let (o, st) := st.addTok { addr := .user signer, path := [], prev := none, kind := .origin }
      let (t, st) := st.addTok { addr := .pkg realm, path := realm, prev := some o, kind := .cur }
      let st ← exec env fuel0 { owner := realm, me := some t, arg := none, bk := none, cb := none, stack := [t] } none prog st
      finish w (.user signer) maxDeposit st
  | .run signer send maxDeposit prog =>
    if !coinsValid send || maxDeposit < 0 then .error .basic
    else if !w.hasAccount signer then .error .unknownAddress
    else do
      let env := ch.envFor w send
      let st := startState ch w
      -- keeper.Run: pkgAddr := caller — the send is a self-transfer
      let bank ← sendCoins w.restricted st.bank (.user signer) (.user signer) send .msgSend
      let st := { st with bank := bank }
      let rp := runPath signer
      let (o, st) := st.addTok { addr := .user signer, path := rp, prev := none, kind := .origin }
      let (t, st) := st.addTok { addr := .user signer, path := rp, prev := some o, kind := .cur }
      let st ← exec env fuel0 { owner := rp, me := some t, arg := none, bk := none, cb := none, stack := [t] } none prog st
      finish w (.user signer) maxDeposit st
  | .bankSend signer dst amt =>
    if !coinsValid amt || amt.isEmpty then .error .basic
    else
      let env := ch.envFor w []
      match env.resolve dst with
      | none => .error .badAddress
      | some d => do
        let bank ← sendCoins w.restricted ⟨w.led, []⟩ (.user signer) d amt .bankSend
        pure { world := { w with led := bank.led, hasAccount := creditedUsers w.hasAccount bank.log },
               log := bank.log, toks := [], bankers := ch.persisted, diffs := [] }

end GnoVerif.C08
