/-
Wire-format primitives of amino (tm2/pkg/amino/encoder.go, decoder.go), for
property C20.  Hand-written, mirroring the Go code; core-only.

Reading conventions
* a byte string is `List UInt8`;
* every Go decoder `DecodeX(bz) (v, n, err)` is `decX : Bytes → Option (α × Nat)`
  (`none` = any error; the callers never look at the error kind, and the
  number of bytes consumed on error is never used because every caller returns
  at once);
* `uint64`/`int64` values are `Nat`/`Int` with the range stated where it matters.
-/
namespace GnoVerif.C20

abbrev Bytes := List UInt8

/-- amino.Typ3 (the protobuf wire type). -/
inductive Typ3 where
  | varint | f64 | blen | f32
deriving DecidableEq, Repr

def Typ3.code : Typ3 → Nat
  | .varint => 0 | .f64 => 1 | .blen => 2 | .f32 => 5

def Typ3.ofCode : Nat → Option Typ3
  | 0 => some .varint | 1 => some .f64 | 2 => some .blen | 5 => some .f32 | _ => none

/-! ### uvarint (encoding/binary.PutUvarint / Uvarint) -/

/-- `binary.PutUvarint` loop with explicit fuel (structural, so that the kernel
can evaluate it); `fuel = n` always suffices because `n / 128 < n`. -/
def encUvarintF : Nat → Nat → Bytes
  | 0, n => [UInt8.ofNat n]
  | f + 1, n =>
    if n < 128 then [UInt8.ofNat n]
    else UInt8.ofNat (n % 128 + 128) :: encUvarintF f (n / 128)

/-- `binary.PutUvarint`: little-endian base-128. -/
def encUvarint (n : Nat) : Bytes := encUvarintF n n

/-- `binary.Uvarint` loop: `i` = index of the byte, `s` = shift, `x` = accumulator.
Overflow (`i == 10`, or the 10th byte `> 1`) and a buffer that ends inside the
varint are both `none`. -/
def decUvarintAux (i s x : Nat) : Bytes → Option (Nat × Nat)
  | [] => none
  | b :: rest =>
    if i = 10 then none
    else if b.toNat < 128 then
      if i = 9 ∧ b.toNat > 1 then none
      else some (x + b.toNat * 2 ^ s, i + 1)
    else decUvarintAux (i + 1) (s + 7) (x + (b.toNat % 128) * 2 ^ s) rest

/-- `amino.DecodeUvarint`: value and number of bytes read. -/
def decUvarint (bz : Bytes) : Option (Nat × Nat) := decUvarintAux 0 0 0 bz

/-- `amino.UvarintSize`. -/
def uvarintSize (n : Nat) : Nat := (encUvarint n).length

/-! ### signed integers -/

def two64 : Nat := 2 ^ 64
def two63 : Nat := 2 ^ 63
def two32 : Nat := 2 ^ 32
def two31 : Nat := 2 ^ 31

/-- `uint64(i)` for an `int64` value `i` (two's complement). -/
def toU64 (z : Int) : Nat := (z % (two64 : Int)).toNat
/-- `int64(u)` for a `uint64` value. -/
def ofU64 (u : Nat) : Int := if u < two63 then (u : Int) else (u : Int) - (two64 : Int)
/-- `uint32(int32)` -/
def toU32 (z : Int) : Nat := (z % (two32 : Int)).toNat
/-- `int32(uint32)` -/
def ofU32 (u : Nat) : Int := if u < two31 then (u : Int) else (u : Int) - (two32 : Int)

/-- zig-zag (`binary.PutVarint`): `ux := uint64(x) << 1; if x < 0 { ux = ^ux }`. -/
def zigzag (z : Int) : Nat := if z ≥ 0 then (2 * z).toNat else (-2 * z - 1).toNat
/-- `binary.Varint`: `x := int64(ux >> 1); if ux&1 != 0 { x = ^x }`. -/
def unzigzag (u : Nat) : Int := if u % 2 = 0 then (u / 2 : Nat) else -((u / 2 : Nat) : Int) - 1

def encVarint (z : Int) : Bytes := encUvarint (zigzag z)
def decVarint (bz : Bytes) : Option (Int × Nat) :=
  (decUvarint bz).map fun (u, n) => (unzigzag u, n)

/-- `EncodePlainVarint`: `EncodeUvarint(w, uint64(i))`. -/
def encPlainVarint (z : Int) : Bytes := encUvarint (toU64 z)
def decPlainVarint (bz : Bytes) : Option (Int × Nat) :=
  (decUvarint bz).map fun (u, n) => (ofU64 u, n)

/-! ### fixed width, little endian -/

def leBytes : Nat → Nat → Bytes
  | 0, _ => []
  | k + 1, n => UInt8.ofNat (n % 256) :: leBytes k (n / 256)

def leNat : Bytes → Nat
  | [] => 0
  | b :: rest => b.toNat + 256 * leNat rest

def encFixed32 (u : Nat) : Bytes := leBytes 4 u
def encFixed64 (u : Nat) : Bytes := leBytes 8 u

def decFixed (k : Nat) (bz : Bytes) : Option (Nat × Nat) :=
  if bz.length < k then none else some (leNat (bz.take k), k)

/-! ### length-prefixed byte strings -/

/-- `EncodeByteSlice`. -/
def encBytes (bs : Bytes) : Bytes := encUvarint bs.length ++ bs

/-- `DecodeByteSlice`: `(bytes, n)`; fails when the count exceeds what is left. -/
def decBytes (bz : Bytes) : Option (Bytes × Nat) :=
  match decUvarint bz with
  | none => none
  | some (count, n) =>
    let rest := bz.drop n
    if count > rest.length then none
    else some (rest.take count, n + count)

/-! ### field keys -/

/-- `encodeFieldNumberAndTyp3`: `uvarint(num<<3 | typ)`. -/
def encKey (num : Nat) (t : Typ3) : Bytes := encUvarint (num * 8 + t.code)

/-- raw key: field number and the 3 type bits (which may be an invalid typ3). -/
def decKeyRaw (bz : Bytes) : Option (Nat × Nat × Nat) :=
  match decUvarint bz with
  | none => none
  | some (v, n) =>
    let num := v / 8
    if num = 0 then none            -- "invalid field num 0 (reserved)"
    else if num > 2 ^ 29 - 1 then none
    else some (num, v % 8, n)

/-! ### bool, byte -/

def encBool (b : Bool) : Bytes := [if b then 1 else 0]
def decBool : Bytes → Option (Bool × Nat)
  | [] => none
  | b :: _ => if b = 0 then some (false, 1) else if b = 1 then some (true, 1) else none

end GnoVerif.C20
