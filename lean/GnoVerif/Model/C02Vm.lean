/-
C02, second correspondence stream: the SUMMARY model of a history of real
gno.land transactions (harness/cmd/c02/vm.go drives the real application).

This is deliberately not a model of the VM.  It is the property statement,
executed: a transaction is a list of messages with a fixed, tiny meaning each
(deploy one of seven fixed packages, call one of four functions of a counter
realm, run one of three scripts, send tokens); the first message that fails
decides the error class, and then

  failed  ⇒  nothing but the signers' sequence numbers moves   (the fee is paid in
             a denomination the summary does not show)
  ok      ⇒  all message effects and the sequence numbers.

The line protocol (`vtx`, `vsim`, `vq`, `vrestart`) and the printed summary are
documented in vm.go; the driver prints what the real application must show
through its ABCI queries after every line.
-/
namespace GnoVerif.C02.Vm

/-- error classes of a failed transaction (the ABCI error type of the real result) -/
inductive VErr where
  | exist | typecheck | panic | deposit | internal | oog | coins
deriving DecidableEq, Repr

def VErr.show : VErr → String
  | .exist => "err:PkgExistError"
  | .typecheck => "err:TypeCheckError"
  | .panic => "err:panic"
  | .deposit => "err:deposit"
  | .internal => "err:InternalError"
  | .oog => "err:OutOfGasError"
  | .coins => "err:InsufficientCoinsError"

inductive Pkg where
  | ca | cb | lib | use | ip | ipw | bad
deriving DecidableEq, Repr

inductive CallFn where
  | inc | incpanic | grow | spin
deriving DecidableEq, Repr

inductive RunFn where
  | inc | incpanic | loop
deriving DecidableEq, Repr

/-- accounts a0, a1, a2 -/
abbrev Acct := Fin 3

inductive VMsg where
  | dep (from_ : Acct) (pkg : Pkg) (ver : Nat) (tiny : Bool)
  | call (from_ : Acct) (rlm : Pkg) (fn : CallFn) (n : Nat) (tiny : Bool)
  | run (from_ : Acct) (fn : RunFn) (n : Nat)
  | send (from_ to : Acct) (amt : Nat)
deriving Repr

def VMsg.signer : VMsg → Acct
  | .dep f _ _ _ => f
  | .call f _ _ _ _ => f
  | .run f _ _ => f
  | .send f _ _ => f

structure VState where
  ca : Option Int := none
  cb : Option Int := none
  lib : Option Nat := none
  use : Option Nat := none
  tok : Acct → Int := fun _ => 0
  seq : Acct → Nat := fun _ => 0

/-- a send above this amount exceeds every balance -/
def tokMax : Nat := 1000000000000000

def VState.ctr (s : VState) : Pkg → Option Int
  | .ca => s.ca
  | .cb => s.cb
  | _ => none

def VState.setCtr (s : VState) (p : Pkg) (v : Int) : VState :=
  match p with
  | .ca => { s with ca := some v }
  | .cb => { s with cb := some v }
  | _ => s

def VState.deployed (s : VState) : Pkg → Bool
  | .ca => s.ca.isSome
  | .cb => s.cb.isSome
  | .lib => s.lib.isSome
  | .use => s.use.isSome
  | _ => false

/-- one message (keeper.go AddPackage / Call / Run and bank send, by their order of checks) -/
def runMsg (s : VState) : VMsg → Except VErr VState
  | .dep _ pkg ver tiny =>
    if s.deployed pkg then .error .exist else
    -- type check
    if pkg == .bad then .error .typecheck else
    if pkg == .use && s.lib != some ver then .error .typecheck else
    if pkg == .ipw && s.ca.isNone then .error .typecheck else
    -- package initialisation
    if pkg == .ip || pkg == .ipw then .error .panic else
    -- storage deposit
    if tiny then .error .deposit else
    match pkg with
    | .ca => .ok { s with ca := some 0 }
    | .cb => .ok { s with cb := some 0 }
    | .lib => .ok { s with lib := some ver }
    | .use => .ok { s with use := some ver }
    | _ => .ok s
  | .call _ rlm fn n tiny =>
    match s.ctr rlm with
    | none => .error .internal
    | some v =>
      match fn with
      | .inc => .ok (s.setCtr rlm (v + n))
      | .incpanic => .error .panic
      | .grow => if tiny then .error .deposit else .ok s
      | .spin => .error .oog
  | .run _ fn n =>
    match fn with
    | .loop => .error .oog
    | .inc =>
      match s.ca with
      | none => .error .typecheck
      | some v => .ok { s with ca := some (v + n) }
    | .incpanic =>
      match s.ca with
      | none => .error .typecheck
      | some _ => .error .panic
  | .send f t amt =>
    if amt > tokMax then .error .coins else
    let tok1 : Acct → Int := fun a => if a = f then s.tok a - amt else s.tok a
    let tok2 : Acct → Int := fun a => if a = t then tok1 a + amt else tok1 a
    .ok { s with tok := tok2 }

def runMsgs (s : VState) : List VMsg → Except VErr VState
  | [] => .ok s
  | m :: ms =>
    match runMsg s m with
    | .error e => .error e
    | .ok s' => runMsgs s' ms

/-- the ante effect the summary shows: every signer's sequence moves by one -/
def bumpSeq (s : VState) (msgs : List VMsg) : VState :=
  { s with seq := fun a => if msgs.any (fun m => m.signer = a) then s.seq a + 1 else s.seq a }

/-- a delivered transaction: all message effects or none, the ante effect always -/
def deliver (s : VState) (msgs : List VMsg) : Option VErr × VState :=
  match runMsgs s msgs with
  | .ok s' => (none, bumpSeq s' msgs)
  | .error e => (some e, bumpSeq s msgs)

/-- a simulated transaction: the class it would have, no effect -/
def simulate (s : VState) (msgs : List VMsg) : Option VErr × VState :=
  match runMsgs s msgs with
  | .ok _ => (none, s)
  | .error e => (some e, s)

/-! ## line protocol -/

/-- strict decimal: `0` or `[1-9][0-9]{0,17}` -/
def parseNum (s : String) : Option Nat :=
  let cs := s.toList
  if cs.isEmpty || cs.length > 18 || !(cs.all Char.isDigit) then none
  else if cs.length > 1 && cs.head? == some '0' then none
  else some (cs.foldl (fun acc c => acc * 10 + (c.toNat - '0'.toNat)) 0)

def parseAcct : String → Option Acct
  | "a0" => some 0 | "a1" => some 1 | "a2" => some 2 | _ => none

def parsePkg : String → Option Pkg
  | "ca" => some .ca | "cb" => some .cb | "lib" => some .lib | "use" => some .use
  | "ip" => some .ip | "ipw" => some .ipw | "bad" => some .bad | _ => none

def parseTiny : String → Option Bool
  | "d" => some false | "s" => some true | _ => none

def parseMsg (s : String) : Option VMsg :=
  match s.splitOn ";" with
  | ["dep", a, p, v, d] =>
    match parseAcct a, parsePkg p, parseTiny d with
    | some a, some p, some d =>
      if v == "1" then some (.dep a p 1 d)
      else if v == "2" && (p == .lib || p == .use) then some (.dep a p 2 d)
      else none
    | _, _, _ => none
  | ["call", a, r, f, n, d] =>
    let fn : Option CallFn := match f with
      | "inc" => some .inc | "incpanic" => some .incpanic | "grow" => some .grow | "spin" => some .spin | _ => none
    match parseAcct a, parsePkg r, fn, parseNum n, parseTiny d with
    | some a, some r, some fn, some n, some d =>
      if r != .ca && r != .cb then none
      else if n > 999 then none
      else if d && (fn != .grow || n == 0) then none
      else some (.call a r fn n d)
    | _, _, _, _, _ => none
  | ["run", a, f, n] =>
    let fn : Option RunFn := match f with
      | "inc" => some .inc | "incpanic" => some .incpanic | "loop" => some .loop | _ => none
    match parseAcct a, fn, parseNum n with
    | some a, some fn, some n => if n > 999 then none else some (.run a fn n)
    | _, _, _ => none
  | ["send", a, b, n] =>
    match parseAcct a, parseAcct b, parseNum n with
    | some a, some b, some n =>
      if n == 0 then none
      else if n > 1000 && n != 2 * tokMax then none
      else some (.send a b n)
    | _, _, _ => none
  | _ => none

def VMsg.burnsAllGas : VMsg → Bool
  | .call _ _ .spin _ _ => true
  | .run _ .loop _ => true
  | _ => false

def VMsg.cheap : VMsg → Bool
  | .send _ _ _ => true
  | .call _ _ .inc _ _ => true
  | _ => false

/-- vm.go vGasRule: a tx with a spin/loop message runs with the low gas limit and
has that message first, or second behind a cheap one; all others run high. -/
def gasRule (lo : Bool) (msgs : List VMsg) : Bool :=
  match msgs.findIdx? VMsg.burnsAllGas with
  | none => !lo
  | some i => lo && (i == 0 || (i == 1 && (msgs.head?.map VMsg.cheap).getD false))

/-- `<lo|hi> <fee> <msg>+` -/
def parseBody (allowLo : Bool) (t : List String) : Option (List VMsg) :=
  match t with
  | g :: fee :: ms =>
    if g != "lo" && g != "hi" then none else
    let lo := g == "lo"
    if lo && !allowLo then none else
    match parseNum fee, ms.mapM parseMsg with
    | some f, some msgs =>
      if f == 0 || f > 1000000000 then none
      else if msgs.isEmpty || msgs.length > 6 then none
      else if !gasRule lo msgs then none
      else some msgs
    | _, _ => none
  | _ => none

def showOpt : Option Int → String
  | none => "-"
  | some v => toString v

def showCls : Option VErr → String
  | none => "ok"
  | some e => e.show

def showDeployed (s : VState) : String :=
  let l := (match s.lib with | some v => [s!"lib:{v}"] | none => []) ++
           (match s.use with | some v => [s!"use:{v}"] | none => [])
  if l.isEmpty then "-" else ",".intercalate l

def showState (s : VState) : String :=
  s!"ca={showOpt s.ca} cb={showOpt s.cb} d={showDeployed s} t={s.tok 0},{s.tok 1},{s.tok 2} s={s.seq 0},{s.seq 1},{s.seq 2}"

def isVmOp (op : String) : Bool :=
  op == "vtx" || op == "vsim" || op == "vq" || op == "vrestart"

/-- one protocol line of the second stream -/
def step (s : VState) (t : List String) : VState × String :=
  match t with
  | ["vrestart"] => (s, "ok")
  | ["vq", q, r] =>
    if (q != "get" && q != "bad" && q != "poke") || (r != "ca" && r != "cb") then (s, "err:badop") else
    let v := if r == "ca" then s.ca else s.cb
    -- get reads the counter; poke adds 1000 in the query's own throwaway state and
    -- returns it; bad panics.  None of them has an effect.
    match q, v with
    | "get", some n => (s, s!"q:{n}")
    | "poke", some n => (s, s!"q:{n + 1000}")
    | _, _ => (s, "q:err")
  | "vtx" :: mark :: rest =>
    if mark != "F" && mark != "S" then (s, "err:badop") else
    match parseBody true rest with
    | none => (s, "err:badop")
    | some msgs =>
      let r := deliver s msgs
      (r.2, showCls r.1 ++ " " ++ showState r.2)
  | "vsim" :: rest =>
    match parseBody false rest with
    | none => (s, "err:badop")
    | some msgs => (s, "sim:" ++ showCls (simulate s msgs).1)
  | _ => (s, "err:badop")

end GnoVerif.C02.Vm
