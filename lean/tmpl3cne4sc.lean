import GnoVerif.Props.C54
#print axioms GnoVerif.C54.rewrite_fixpoint
#print axioms GnoVerif.C54.rewrite_stable_partial
#print axioms GnoVerif.C54.rewrite_idempotent_partial
#print axioms GnoVerif.C54.used_names_stay_imported_partial
#print axioms GnoVerif.C54.first_used_import_survives_partial
#print axioms GnoVerif.C54.blank_import_never_removed
#print axioms GnoVerif.C54.added_imports_are_needed
#print axioms GnoVerif.C54.duplicate_import_counterexample
#print axioms GnoVerif.C54.blank_import_shadows_plain_counterexample
#print axioms GnoVerif.C54.blank_import_not_idempotent_counterexample
#print axioms GnoVerif.C54.dot_import_always_deleted
